(* The STRUCTURE of what tealer's exporters draw, REGENERATED from the Python source (Gen/OutputGen.v, translated
   statement by statement from utils/output.py and printers/call_graph.py by tools/translate_output.py), against the
   hand-written Model/Output.v.

   Results (for every parsed contract: `parse_teal p = Ok t`; the proofs go through the well-formedness record twf,
   parse_twf : parse_teal p = Ok t -> twf t):
     1. _bb_to_dot          bb_to_dot_gen_eq        node of the block, then one IEdge per element of local_out
     2. full_cfg_to_dot     full_cfg_to_dot_gen_some / _none / _parsed
                                                    clusters, then per block of teal.bbs its node, local_out, call_out;
                            full_items_edges / full_items_nodes / full_items_clusters: the edge / node / cluster
                            projections of the items are full_cfg_colored_edges_gen / full_cfg_nodes / full_cfg_clusters
     3. call graph          construct_call_graph_gen_eq, print_gen_eq   (callgraph_nodes, callgraph_edges, up to html.escape)
     4. subroutine_to_dot   subroutine_to_dot_gen_some / _none / _parsed; sub_items_nodes / sub_items_colored_edges /
                            sub_items_boxes (sub_cfg_nodes, sub_cfg_colored_edges, sub_cfg_callboxes)
     5. ExecutionPaths      short_notation_gen_eq, filter_paths_gen_eq (+ filter_paths_gen_error), generate_output_gen_eq
                            (path_marks, path_file_indices, path_filename)
   one transported theorem per item (section 8), and the one place where the Python and Model/Output.v differ (section 10:
   html.escape of the call-graph names, callgraph_html_escape_witness).
   The generated functions return None (a Python exception) only outside parsed contracts: dangling block references,
   empty blocks (IndexError of entry_instr / exit_instr), a bz/bnz block without successor (IndexError of bb.next[0]; the
   hand-written local_out draws nothing there), an unregistered callee. *)
From Coq Require Import String List NArith Bool Arith Ascii Lia.
From Tealer Require Import Syntax Parse Cfg Analysis KeysGen Output OutputGen.
From Tealer Require Import CfgLemmas SubLemmas GraphWf OutputLemmas.
Import ListNotations.
Open Scope string_scope.
Open Scope list_scope.

(* ====================================================================== *)
(* 0. Generic facts about the monad, folds and comprehensions              *)
(* ====================================================================== *)
Lemma fold_some {S X : Type} (F : S -> X -> py S) (G : S -> X -> S) (l : list X) :
  (forall x, In x l -> forall st, F st x = Some (G st x)) ->
  forall s, fold_left (fun acc x => bind acc (fun st => F st x)) l (ret s) = ret (fold_left G l s).
Proof.
  induction l as [|a l IH]; intros H s; cbn [fold_left]; [reflexivity|].
  unfold ret at 1. cbn [bind]. rewrite (H a (or_introl eq_refl)). apply IH.
  intros x Hx. apply H. right. exact Hx.
Qed.

Lemma fold_app_flat {A X : Type} (h : X -> list A) (l : list X) :
  forall s, fold_left (fun st x => st ++ h x) l s = s ++ flat_map h l.
Proof.
  induction l as [|a l IH]; intros s; cbn [fold_left flat_map]; [rewrite app_nil_r; reflexivity|].
  rewrite IH, app_assoc. reflexivity.
Qed.

Lemma fold_app_map {A X : Type} (h : X -> A) (l : list X) :
  forall s, fold_left (fun st x => st ++ [h x]) l s = s ++ map h l.
Proof.
  induction l as [|a l IH]; intros s; cbn [fold_left map]; [rewrite app_nil_r; reflexivity|].
  rewrite IH, <- app_assoc. reflexivity.
Qed.

Lemma concat_flat_map {A X : Type} (h : X -> list (list A)) (l : list X) :
  concat (flat_map h l) = flat_map (fun x => concat (h x)) l.
Proof. induction l as [|a l IH]; cbn [flat_map concat]; [reflexivity|]. rewrite concat_app, IH. reflexivity. Qed.

Lemma concat_map_single {A X : Type} (h : X -> A) (l : list X) : concat (map (fun x => [h x]) l) = map h l.
Proof. induction l as [|a l IH]; cbn; [reflexivity|]. rewrite IH. reflexivity. Qed.

Lemma concat_map_nil {A X : Type} (l : list X) : concat (map (fun _ : X => @nil A) l) = [].
Proof. induction l as [|a l IH]; cbn; [reflexivity|]. exact IH. Qed.

Lemma flat_map_ext_in {A B : Type} (f g : A -> list B) (l : list A) :
  (forall x, In x l -> f x = g x) -> flat_map f l = flat_map g l.
Proof.
  induction l as [|a l IH]; intros H; cbn [flat_map]; [reflexivity|].
  rewrite (H a (or_introl eq_refl)), IH; [reflexivity|]. intros x Hx. apply H. right. exact Hx.
Qed.

Lemma comp_some {A B : Type} (e : A -> py B) (g : A -> B) (l : list A) :
  (forall x, In x l -> e x = Some (g x)) -> comp (fun _ => ret true) e l = Some (map g l).
Proof.
  induction l as [|a l IH]; intros H; cbn [comp map]; [reflexivity|].
  unfold ret at 1. cbn [bind]. rewrite (H a (or_introl eq_refl)). cbn [bind].
  rewrite IH; [reflexivity|]. intros x Hx. apply H. right. exact Hx.
Qed.

Lemma str_set_dedup l : str_set l = dedup_str l.
Proof. induction l as [|a l IH]; cbn; [reflexivity|]. rewrite IH. reflexivity. Qed.

Lemma py_str_int_dec n : py_str_int n = dec_of_nat n.
Proof. reflexivity. Qed.

(* ====================================================================== *)
(* 1. Well-formedness of a parsed contract, as the exporters need it       *)
(* ====================================================================== *)
Record twf (t : teal) : Prop := {
  wf_tb : forall b, In b (t_blocks t) -> tblock t (b_idx b) = Some b;
  wf_exit : forall n b, tblock t n = Some b -> exists i, exit_op t b = Some i;
  wf_port : forall n b, tblock t n = Some b ->
              exists k i, hd_error (b_ins b) = Some k /\ nth_error (t_prog t) k = Some i;
  wf_next : forall n b m, tblock t n = Some b -> In m (b_next b) -> exists b', tblock t m = Some b';
  wf_shape : forall n b, tblock t n = Some b -> is_cond_branch_block t b = true ->
              (exists j, b_next b = [j]) \/ (exists d j, b_next b = [d; j]);
  wf_callee : forall n b l, tblock t n = Some b -> exit_op t b = Some (ICallsub l) ->
              exists s, called_subroutine t b = Some s /\ In s (t_subs t);
  wf_blocks : forall s n, routine t s -> In n (s_blocks s) -> exists b, tblock t n = Some b;
  wf_entry : forall s, In s (t_subs t) -> In (s_entry s) (s_blocks s);
  wf_callers : forall s c, In s (t_subs t) -> In c (s_callers s) ->
              exists b r, tblock t c = Some b /\ sub_of_block t c = Some r;
  wf_names : NoDup (map s_name (t_subs t))
}.

Lemma retained_of_routine p t bs s n :
  parse_teal p = Ok t -> build_blocks p = Some bs -> routine t s -> In n (s_blocks s) -> In n (retained_ids t).
Proof.
  intros H Hbs Hr Hn. destruct (retained_char p t bs H Hbs) as (Hret & _). apply Hret.
  destruct Hr as [->|Hs].
  - left. destruct (main_blocks_are_local_reach p t bs H Hbs) as (_ & Hm & _). apply Hm. exact Hn.
  - right. exists s. split; [exact Hs|]. destruct (sub_blocks_are_local_reach p t bs s H Hbs Hs) as (Hx & _).
    apply Hx. exact Hn.
Qed.

Theorem parse_twf p t : parse_teal p = Ok t -> twf t.
Proof.
  intros H. destruct (parse_teal_blocks p t H) as (bs & Hbs).
  pose proof (retained_char p t bs H Hbs) as (Hret & _ & _ & Htb & _ & Hnext).
  destruct (parse_teal_inv p t H) as (_ & _ & Hne & _ & _ & Hprog & _).
  destruct (build_blocks_spec p bs Hbs) as (rbs & nexts & Hcr & _ & _ & _ & Hn).
  assert (Hraw : forall n b, tblock t n = Some b ->
            exists rb nx, In rb rbs /\ b_ins b = rb_ins rb /\ raw_next p rbs n rb = Some nx).
  { intros n b Hb. destruct (Htb n b Hb) as (b0 & Hn0 & _ & Hins & _).
    destruct (Hn n b0 Hn0) as (rb & nx & Hrb & _ & Hr & Eb). exists rb, nx.
    split; [eapply nth_error_In; eauto|]. split; [rewrite Hins, Eb; reflexivity | exact Hr]. }
  constructor.
  - intros b Hb. apply (in_t_blocks p t b H). exact Hb.
  - intros n b Hb. destruct (Hraw n b Hb) as (rb & nx & _ & Hins & Hr).
    destruct (raw_next_spec _ _ _ _ _ Hr) as (Hnz & inx & _ & Hinx & _).
    unfold exit_op. rewrite Hins, Hprog. destruct (rb_ins rb) as [|h tl] eqn:E; [congruence|].
    unfold ins_next in Hinx. destruct (op_at p (last (h :: tl) 0)) as [i|]; [eauto | discriminate].
  - intros n b Hb. destruct (Hraw n b Hb) as (rb & nx & Hin & Hins & Hr).
    destruct (raw_next_spec _ _ _ _ _ Hr) as (Hnz & _).
    rewrite Hins, Hprog. destruct (rb_ins rb) as [|h tl] eqn:E; [congruence|]. exists h. cbn [hd_error].
    assert (Hlt : h < length p).
    { pose proof (blocks_partition p rbs Hcr Hne) as Hpart.
      assert (Hh : In h (concat (map rb_ins rbs))).
      { apply in_concat. exists (rb_ins rb). split; [apply in_map; exact Hin | rewrite E; left; reflexivity]. }
      rewrite Hpart in Hh. apply in_seq in Hh. lia. }
    destruct (nth_error p h) as [i|] eqn:Ei; [eauto|]. apply nth_error_None in Ei. lia.
  - intros n b m Hb Hm. apply (tblock_retained_ids p t m H). apply (Hnext b m); [|exact Hm].
    eapply tblock_in_blocks; eauto.
  - intros n b Hb Hc. exact (cond_branch_next_shape p t n b H Hb Hc).
  - intros n b l Hb He. destruct (called_subroutine_spec p t n b l H Hb He) as (s & Hs & Hin & _). eauto.
  - intros s n Hr Hn'. apply (tblock_retained_ids p t n H). eapply retained_of_routine; eauto.
  - intros s Hs. destruct (sub_blocks_are_local_reach p t bs s H Hbs Hs) as (Hx & _). apply Hx. constructor.
  - intros s c Hs Hc. apply (callers_exact p t s H Hs) in Hc. destruct Hc as (b & Hb & _).
    exists b. assert (Hc : In c (retained_ids t)) by (apply (tblock_retained_ids p t c H); eauto).
    apply Hret in Hc.
    assert (Hr : exists r, routine t r /\ In c (s_blocks r)).
    { destruct Hc as [Hc|(s' & Hs' & Hc)].
      - exists (t_main t). split; [left; reflexivity|].
        destruct (main_blocks_are_local_reach p t bs H Hbs) as (_ & Hm & _). apply Hm. exact Hc.
      - exists s'. split; [right; exact Hs'|].
        destruct (sub_blocks_are_local_reach p t bs s' H Hbs Hs') as (Hx & _). apply Hx. exact Hc. }
    destruct Hr as (r & Hr & Hcr'). destruct (sub_of_block_some t c r Hr Hcr') as (r' & E). eauto.
  - apply (subs_are_callsub_targets p t H).
Qed.

(* ====================================================================== *)
(* 2. The glue on a well-formed contract                                   *)
(* ====================================================================== *)
(* the PORT of block m (line of its entry instruction) *)
Definition tport (t : teal) (m : nat) : nat :=
  match tblock t m with
  | Some b => match hd_error (b_ins b) with
              | Some k => match nth_error (t_prog t) k with Some i => i_line i | None => 0 end
              | None => 0 end
  | None => 0
  end.

(* the value full_cfg_to_dot and subroutine_to_dot give config.ignore_edge: the translated lambda
   `lambda bi, _: isinstance(bi.exit_instr, (Callsub))` *)
Definition ignore_callsub (t : teal) : nat -> nat -> py bool :=
  fun (bi : nat) (_ : nat) =>
    bind (bind (attr_exit_instr t bi) (fun tmp => ins_op t tmp))
         (fun tmp => ret (match tmp with ICallsub _ => true | _ => false end)).

Section Glue.
  Variable t : teal.
  Hypothesis Hwf : twf t.

  Lemma exit_glue n b : tblock t n = Some b -> bind (attr_exit_instr t n) (fun tmp => ins_op t tmp) = exit_op t b.
  Proof.
    intros Hb. unfold attr_exit_instr, ins_op, exit_op. rewrite Hb. cbn [bind].
    destruct (b_ins b); reflexivity.
  Qed.

  Lemma port_glue m b : tblock t m = Some b ->
    bind (attr_entry_instr t m) (fun tmp => attr_line t tmp) = Some (tport t m).
  Proof.
    intros Hb. destruct (wf_port t Hwf m b Hb) as (k & i & Hk & Hi).
    unfold attr_entry_instr, attr_line, tport. rewrite Hb. cbn [bind]. rewrite Hk. cbn [bind]. rewrite Hi. reflexivity.
  Qed.

  Lemma next_glue n b : tblock t n = Some b -> attr_next t n = Some (b_next b).
  Proof. intros Hb. unfold attr_next. rewrite Hb. reflexivity. Qed.

  Lemma cond_branch_of_exit b i : exit_op t b = Some i ->
    match i with IBZ _ | IBNZ _ => true | _ => false end = is_cond_branch_block t b.
  Proof. intros E. unfold is_cond_branch_block. rewrite E. destruct i; reflexivity. Qed.

  Lemma callsub_of_exit b i : exit_op t b = Some i ->
    match i with ICallsub _ => true | _ => false end = is_callsub_block t b.
  Proof. intros E. unfold is_callsub_block. rewrite E. destruct i; reflexivity. Qed.

  Lemma is_callsub_glue n b : tblock t n = Some b -> attr_is_callsub_block t n = Some (is_callsub_block t b).
  Proof.
    intros Hb. unfold attr_is_callsub_block.
    change (bind (attr_exit_instr t n) (fun i => bind (ins_op t i) (fun o => ret match o with ICallsub _ => true | _ => false end)))
      with (bind (attr_exit_instr t n) (fun i => bind ((fun tmp => ins_op t tmp) i) (fun o => ret match o with ICallsub _ => true | _ => false end))).
    destruct (wf_exit t Hwf n b Hb) as (i & Hi). pose proof (exit_glue n b Hb) as E. rewrite Hi in E.
    unfold attr_exit_instr in *. rewrite Hb in *. cbn [bind] in *.
    destruct (b_ins b) as [|h tl]; [discriminate|]. cbn [bind] in *. rewrite E. cbn [bind ret].
    rewrite (callsub_of_exit b i Hi). reflexivity.
  Qed.

  Lemma ignore_glue n b m : tblock t n = Some b -> ignore_callsub t n m = Some (is_callsub_block t b).
  Proof.
    intros Hb. unfold ignore_callsub. rewrite (exit_glue n b Hb).
    destruct (wf_exit t Hwf n b Hb) as (i & Hi). rewrite Hi. cbn [bind ret].
    rewrite (callsub_of_exit b i Hi). reflexivity.
  Qed.

  Lemma sub_return_point_glue n b : tblock t n = Some b -> is_callsub_block t b = true ->
    attr_sub_return_point t n = Some (sub_return_point b).
  Proof.
    intros Hb Hc. unfold attr_sub_return_point. rewrite (is_callsub_glue n b Hb), Hc. cbn [bind]. rewrite Hb. reflexivity.
  Qed.
End Glue.

(* ====================================================================== *)
(* 3. _bb_to_dot                                                           *)
(* ====================================================================== *)
Definition edge_item (t : teal) (n : nat) (e : nat * ecolor) : item := IEdge n (fst e) (tport t (fst e)) (snd e).

Section BbToDot.
  Variable t : teal.
  Hypothesis Hwf : twf t.

  (* graph_edge_str of _bb_to_dot, under the ignore_edge of the two exporters *)
  Lemma edge_str_glue n b m c : tblock t n = Some b -> (exists b', tblock t m = Some b') ->
    ifE (ignore_callsub t n m) (ret [])
        (bind (bind (attr_entry_instr t m) (fun tmp1 => attr_line t tmp1))
              (fun tmp2 => ret [IEdge n m tmp2 c]))
    = Some (if is_callsub_block t b then [] else [edge_item t n (m, c)]).
  Proof.
    intros Hb (b' & Hm). rewrite (ignore_glue t Hwf n b m Hb). destruct (is_callsub_block t b); cbn [ifE]; [reflexivity|].
    rewrite (port_glue t Hwf m b' Hm). reflexivity.
  Qed.

  Theorem bb_to_dot_gen_eq n b color (bord : nat -> py border) :
    tblock t n = Some b ->
    bb_to_dot_gen t n (mkConfig (ignore_callsub t) color bord) =
    bind (bord n) (fun bd => ret (INode n bd :: map (edge_item t n) (local_out color t b))).
  Proof.
    intros Hb. unfold bb_to_dot_gen. cbv zeta. unfold attr_block_idx.
    cbn [cfg_ignore_edge cfg_color_edges cfg_bb_border_color].
    rewrite (port_glue t Hwf n b Hb). cbn [bind].
    rewrite !(exit_glue t n b Hb). rewrite !(next_glue t n b Hb).
    destruct (wf_exit t Hwf n b Hb) as (i & Hi). rewrite Hi. cbn [bind ret].
    rewrite (cond_branch_of_exit t b i Hi).
    assert (Hplain :
      bind (fold_left (fun acc1 next_bb => bind acc1 (fun st1 =>
              bind (bind (ifE (ignore_callsub t n next_bb) (Some [])
                              (bind (bind (attr_entry_instr t next_bb) (fun tmp1 => attr_line t tmp1))
                                    (fun tmp2 => Some [IEdge n next_bb tmp2 EPlain])))
                         (fun tmp15 => Some (st1 ++ [tmp15])))
                   (fun graph_edges => Some graph_edges)))
              (b_next b) (Some []))
           (fun tmp17 => bind (bord n) (fun table_str => Some ([INode n table_str] ++ concat tmp17)))
      = bind (bord n) (fun bd => Some (INode n bd :: map (edge_item t n)
                 (if is_callsub_block t b then [] else map (fun m => (m, EPlain)) (b_next b))))).
    { rewrite (fold_some _ (fun st m => st ++ [if is_callsub_block t b then [] else [edge_item t n (m, EPlain)]])).
      - unfold ret. cbn [bind]. rewrite fold_app_map. cbn [app].
        destruct (bord n) as [bd|]; [|reflexivity]. cbn [bind]. f_equal. cbn [app]. f_equal.
        destruct (is_callsub_block t b).
        + apply concat_map_nil.
        + rewrite map_map. apply concat_map_single.
      - intros m Hm st. pose proof (edge_str_glue n b m EPlain Hb (wf_next t Hwf n b m Hb Hm)) as E.
        unfold ret in E. rewrite E. reflexivity. }
    unfold local_out. unfold ret in *. destruct color; cbn [andE andb].
    - destruct (is_cond_branch_block t b) eqn:Ecb; cbn [ifE].
      + destruct (wf_shape t Hwf n b Hb Ecb) as [(j & Ej)|(d & j & Ej)]; rewrite Ej in *; cbn [length Nat.eqb bind ifE subscript nth_error].
        * assert (Hj : exists b', tblock t j = Some b') by (apply (wf_next t Hwf n b j Hb); rewrite Ej; left; reflexivity).
          pose proof (edge_str_glue n b j EJump Hb Hj) as E. unfold ret in E. rewrite E. cbn [bind].
          destruct (bord n) as [bd|]; [|reflexivity]. cbn [bind]. destruct (is_callsub_block t b); reflexivity.
        * assert (Hd : exists b', tblock t d = Some b') by (apply (wf_next t Hwf n b d Hb); rewrite Ej; left; reflexivity).
          assert (Hj : exists b', tblock t j = Some b') by (apply (wf_next t Hwf n b j Hb); rewrite Ej; right; left; reflexivity).
          pose proof (edge_str_glue n b d EDefault Hb Hd) as E1. unfold ret in E1. rewrite E1. cbn [bind].
          pose proof (edge_str_glue n b j EJump Hb Hj) as E2. unfold ret in E2. rewrite E2. cbn [bind].
          destruct (bord n) as [bd|]; [|reflexivity]. cbn [bind]. destruct (is_callsub_block t b); reflexivity.
      + exact Hplain.
    - exact Hplain.
  Qed.
End BbToDot.

(* ====================================================================== *)
(* 4. full_cfg_to_dot                                                      *)
(* ====================================================================== *)
Definition call_item (t : teal) (e : nat * nat * ecolor) : item :=
  IEdge (fst (fst e)) (snd (fst e)) (tport t (snd (fst e))) (snd e).
(* what is emitted for one block of teal.bbs: its node, its local edges, its call edges *)
Definition node_items (t : teal) (color : bool) (bf : nat -> border) (b : block) : list item :=
  INode (b_idx b) (bf (b_idx b)) :: map (edge_item t (b_idx b)) (local_out color t b) ++ map (call_item t) (call_out t b).
Definition cluster_items (t : teal) : list item :=
  map (fun e => ICluster (fst e) (fst (snd e)) (snd (snd e))) (enumerate_from 0 (full_cfg_clusters t)).
Definition full_items (t : teal) (color : bool) (bf : nat -> border) : list item :=
  cluster_items t ++ flat_map (node_items t color bf) (t_blocks t).
Definition out_of (fn : option (list string)) (s : list item) : dotout :=
  match fn with Some f => Written f s | None => Returned s end.

Lemma flat_map_map {A B C : Type} (g : A -> B) (f : B -> list C) (l : list A) :
  flat_map f (map g l) = flat_map (fun x => f (g x)) l.
Proof. induction l as [|a l IH]; cbn [map flat_map]; [reflexivity|]. rewrite IH. reflexivity. Qed.

Section FullCfgGen.
  Variable t : teal.
  Hypothesis Hwf : twf t.

  (* graph_edge_str of full_cfg_to_dot (no ignore_edge test) *)
  Lemma edge_str_full n m c : (exists b', tblock t m = Some b') ->
    bind (bind (attr_entry_instr t m) (fun tmp2 => attr_line t tmp2)) (fun tmp3 => ret [IEdge n m tmp3 c])
    = Some [call_item t (n, m, c)].
  Proof. intros (b' & Hm). rewrite (port_glue t Hwf m b' Hm). reflexivity. Qed.

  (* the fragments appended to bb_nodes_dot for block b *)
  Definition call_frags (b : block) : list (list item) := map (fun e => [call_item t e]) (call_out t b).

  Lemma concat_call_frags b : concat (call_frags b) = map (call_item t) (call_out t b).
  Proof. unfold call_frags. apply concat_map_single. Qed.

  Lemma cluster_loop :
    fold_left (fun acc1 elt1 => bind acc1 (fun st1 =>
        ret (st1 ++ [[ICluster (fst elt1) (fst (snd elt1))
                        (map (fun bb : nat => attr_block_idx bb) (attr_blocks (snd (snd elt1))))]])))
      (enumerate_from 0 (attr_subroutines_items t)) (ret [])
    = Some (map (fun x => [x]) (cluster_items t)).
  Proof.
    rewrite (fold_some _ (fun st e => st ++ [[ICluster (fst e) (fst (snd e)) (s_blocks (snd (snd e)))]])).
    - unfold ret. f_equal. rewrite fold_app_map. cbn [app].
      unfold cluster_items, full_cfg_clusters, attr_subroutines_items, enumerate_from. rewrite !map_length.
      rewrite map_map.
      generalize (seq 0 (length (t_subs t))). induction (t_subs t) as [|s l IH]; intros [|k ks]; cbn; try reflexivity.
      f_equal. apply IH.
    - intros e _ st. unfold attr_block_idx, attr_blocks. rewrite map_id. reflexivity.
  Qed.

  (* the fragments appended to bb_nodes_dot for the block with id n *)
  Definition block_frags (color : bool) (bf : nat -> border) (n : nat) : list (list item) :=
    match tblock t n with
    | Some b => (INode n (bf n) :: map (edge_item t n) (local_out color t b)) :: call_frags b
    | None => []
    end.

  Lemma concat_block_frags color bf b : In b (t_blocks t) ->
    concat (block_frags color bf (b_idx b)) = node_items t color bf b.
  Proof.
    intros Hb. unfold block_frags, node_items. rewrite (wf_tb t Hwf b Hb). cbn [concat].
    rewrite concat_call_frags. reflexivity.
  Qed.

  Lemma bbs_In x : In x (attr_bbs t) -> exists b, In b (t_blocks t) /\ b_idx b = x /\ tblock t x = Some b.
  Proof.
    unfold attr_bbs. intros Hx. apply in_map_iff in Hx. destruct Hx as (b & E & Hb). exists b.
    split; [exact Hb|]. split; [exact E|]. rewrite <- E. apply (wf_tb t Hwf b Hb).
  Qed.

  Lemma callsub_exit b : is_callsub_block t b = true -> exists l, exit_op t b = Some (ICallsub l).
  Proof. unfold is_callsub_block. destruct (exit_op t b) as [i|]; [|discriminate]. destruct i; try discriminate. eauto. Qed.

  Theorem full_cfg_to_dot_gen_some c fn bf :
    (forall b, In b (t_blocks t) -> cfg_bb_border_color c (b_idx b) = Some (bf (b_idx b))) ->
    full_cfg_to_dot_gen t (Some c) fn = Some (out_of fn (full_items t (cfg_color_edges c) bf)).
  Proof.
    intros Hbord. unfold full_cfg_to_dot_gen. cbv zeta. rewrite cluster_loop. cbn [bind].
    unfold set_ignore_edge. fold (ignore_callsub t).
    rewrite (fold_some _ (fun st x => st ++ block_frags (cfg_color_edges c) bf x)).
    - unfold ret. cbn [bind]. rewrite fold_app_flat. cbn [app].
      assert (E : concat (map (fun x : item => [x]) (cluster_items t)) ++
                  concat (flat_map (block_frags (cfg_color_edges c) bf) (attr_bbs t))
                  = full_items t (cfg_color_edges c) bf).
      { unfold full_items. rewrite (concat_map_single (fun x => x)), map_id. f_equal.
        rewrite concat_flat_map. unfold attr_bbs. rewrite flat_map_map. apply flat_map_ext_in.
        intros b Hb. apply concat_block_frags. exact Hb. }
      destruct fn as [f|]; cbn [fst snd out_of]; rewrite E; reflexivity.
    - intros x Hx st. destruct (bbs_In x Hx) as (b & Hin & Ex & Hb).
      rewrite (bb_to_dot_gen_eq t Hwf x b _ _ Hb). rewrite <- Ex at 1. rewrite (Hbord b Hin), Ex. unfold ret. cbn [bind].
      rewrite (is_callsub_glue t Hwf x b Hb). unfold block_frags. rewrite Hb.
      destruct (is_callsub_block t b) eqn:Ecs; cbn [ifE].
      + destruct (callsub_exit b Ecs) as (l & Hl). destruct (wf_callee t Hwf x b l Hb Hl) as (s & Hs & Hsin).
        unfold attr_called_subroutine. rewrite Hb. cbn [bind]. rewrite Hs. cbn [bind]. unfold attr_entry, attr_block_idx.
        assert (He : exists b', tblock t (s_entry s) = Some b').
        { apply (wf_blocks t Hwf s); [right; exact Hsin | apply (wf_entry t Hwf s Hsin)]. }
        pose proof (edge_str_full x (s_entry s) ECall He) as E1. unfold ret in E1. rewrite E1. cbn [bind].
        rewrite (sub_return_point_glue t Hwf x b Hb Ecs). cbn [bind].
        unfold call_frags, call_out. rewrite Hs. rewrite (tblock_b_idx t x b Hb).
        destruct (sub_return_point b) as [rp|] eqn:Erp.
        * assert (Hrp : exists b', tblock t rp = Some b').
          { apply (wf_next t Hwf x b rp Hb). unfold sub_return_point in Erp. destruct (b_next b); [discriminate|].
            inversion Erp. left. reflexivity. }
          unfold attr_retsub_blocks.
          rewrite (fold_some _ (fun st2 r => st2 ++ [[call_item t (r, rp, EPlain)]])).
          -- unfold ret. cbn [bind]. rewrite fold_app_map. f_equal. rewrite <- !app_assoc. cbn [app map]. f_equal. f_equal. f_equal.
             rewrite map_map. reflexivity.
          -- intros r _ st2. pose proof (edge_str_full r rp EPlain Hrp) as E2. unfold ret in E2. rewrite E2. reflexivity.
        * rewrite <- app_assoc. reflexivity.
      + unfold call_frags, call_out. rewrite (is_callsub_called t b Ecs). reflexivity.
  Qed.
End FullCfgGen.

(* ---- config = None: the default config of the printer "cfg" (border "#000066" for the blocks of __main__) *)
Definition default_full_config (t : teal) : dotconfig :=
  set_bb_border_color default_config
    (fun bb : nat => ret (if negb (nat_mem (attr_block_idx bb)
                                     (map (fun bb0 : nat => attr_block_idx bb0)
                                        (filter (fun bb0 : nat => nat_mem bb0 (attr_blocks (attr_main t))) (attr_bbs t))))
                          then BBlack else BSub)).
Definition default_border (t : teal) (n : nat) : border := if full_cfg_dark_border t n then BSub else BBlack.

Lemma full_cfg_to_dot_gen_none_config t fn :
  full_cfg_to_dot_gen t None fn = full_cfg_to_dot_gen t (Some (default_full_config t)) fn.
Proof. reflexivity. Qed.

Lemma default_border_glue t b : In b (t_blocks t) ->
  cfg_bb_border_color (default_full_config t) (b_idx b) = Some (default_border t (b_idx b)).
Proof.
  intros Hb. unfold default_full_config, set_bb_border_color, default_border, full_cfg_dark_border.
  cbn [cfg_bb_border_color]. unfold ret, attr_block_idx, attr_blocks, attr_main, attr_bbs. rewrite map_id. f_equal.
  destruct (nat_mem (b_idx b) (s_blocks (t_main t))) eqn:Em.
  - assert (E : nat_mem (b_idx b) (filter (fun bb0 => nat_mem bb0 (s_blocks (t_main t))) (map b_idx (t_blocks t))) = true).
    { apply nat_mem_In. apply filter_In. split; [apply in_map; exact Hb | exact Em]. }
    rewrite E. reflexivity.
  - destruct (nat_mem (b_idx b) (filter (fun bb0 => nat_mem bb0 (s_blocks (t_main t))) (map b_idx (t_blocks t)))) eqn:E; [|reflexivity].
    apply nat_mem_In in E. apply filter_In in E. destruct E as [_ E]. congruence.
Qed.

Theorem full_cfg_to_dot_gen_none t fn : twf t ->
  full_cfg_to_dot_gen t None fn = Some (out_of fn (full_items t true (default_border t))).
Proof.
  intros Hwf. rewrite full_cfg_to_dot_gen_none_config.
  apply (full_cfg_to_dot_gen_some t Hwf (default_full_config t) fn (default_border t)).
  intros b Hb. apply default_border_glue. exact Hb.
Qed.

(* ---- the structural projections of an item list *)
Definition edges_of (l : list item) : list (nat * nat * ecolor) :=
  flat_map (fun i => match i with IEdge s d _ c => [(s, d, c)] | _ => [] end) l.
Definition nodes_of (l : list item) : list nat :=
  flat_map (fun i => match i with INode n _ => [n] | _ => [] end) l.
Definition node_borders_of (l : list item) : list (nat * border) :=
  flat_map (fun i => match i with INode n b => [(n, b)] | _ => [] end) l.
Definition clusters_of (l : list item) : list (nat * (string * list nat)) :=
  flat_map (fun i => match i with ICluster k nm ms => [(k, (nm, ms))] | _ => [] end) l.
Definition edge_ports_of (l : list item) : list (nat * nat) :=
  flat_map (fun i => match i with IEdge _ d p _ => [(d, p)] | _ => [] end) l.

Lemma edges_of_app l1 l2 : edges_of (l1 ++ l2) = edges_of l1 ++ edges_of l2.
Proof. apply flat_map_app. Qed.
Lemma nodes_of_app l1 l2 : nodes_of (l1 ++ l2) = nodes_of l1 ++ nodes_of l2.
Proof. apply flat_map_app. Qed.
Lemma node_borders_of_app l1 l2 : node_borders_of (l1 ++ l2) = node_borders_of l1 ++ node_borders_of l2.
Proof. apply flat_map_app. Qed.
Lemma clusters_of_app l1 l2 : clusters_of (l1 ++ l2) = clusters_of l1 ++ clusters_of l2.
Proof. apply flat_map_app. Qed.

Lemma edges_of_edge_items t n l : edges_of (map (edge_item t n) l) = map (fun '(m, c) => (n, m, c)) l.
Proof. induction l as [|[m c] l IH]; cbn; [reflexivity|]. f_equal. exact IH. Qed.
Lemma edges_of_call_items t l : edges_of (map (call_item t) l) = l.
Proof. induction l as [|[[x y] c] l IH]; cbn; [reflexivity|]. f_equal. exact IH. Qed.
Lemma nodes_of_edge_items t n l : nodes_of (map (edge_item t n) l) = [].
Proof. induction l as [|e l IH]; cbn; [reflexivity|]. exact IH. Qed.
Lemma nodes_of_call_items t l : nodes_of (map (call_item t) l) = [].
Proof. induction l as [|e l IH]; cbn; [reflexivity|]. exact IH. Qed.
Lemma node_borders_of_edge_items t n l : node_borders_of (map (edge_item t n) l) = [].
Proof. induction l as [|e l IH]; cbn; [reflexivity|]. exact IH. Qed.
Lemma node_borders_of_call_items t l : node_borders_of (map (call_item t) l) = [].
Proof. induction l as [|e l IH]; cbn; [reflexivity|]. exact IH. Qed.
Lemma clusters_of_edge_items t n l : clusters_of (map (edge_item t n) l) = [].
Proof. induction l as [|e l IH]; cbn; [reflexivity|]. exact IH. Qed.
Lemma clusters_of_call_items t l : clusters_of (map (call_item t) l) = [].
Proof. induction l as [|e l IH]; cbn; [reflexivity|]. exact IH. Qed.

Lemma flat_map_flat_map {A B C : Type} (f : A -> list B) (g : B -> list C) (l : list A) :
  flat_map g (flat_map f l) = flat_map (fun x => flat_map g (f x)) l.
Proof. induction l as [|a l IH]; cbn [flat_map]; [reflexivity|]. rewrite flat_map_app, IH. reflexivity. Qed.

Lemma flat_map_nil {A B : Type} (f : A -> list B) (l : list A) : (forall x, f x = []) -> flat_map f l = [].
Proof. intros H. induction l as [|a l IH]; cbn [flat_map]; [reflexivity|]. rewrite H, IH. reflexivity. Qed.

Lemma flat_map_single {A B : Type} (f : A -> B) (l : list A) : flat_map (fun x => [f x]) l = map f l.
Proof. induction l as [|a l IH]; cbn; [reflexivity|]. rewrite IH. reflexivity. Qed.

Section FullItems.
  Variables (t : teal) (color : bool) (bf : nat -> border).

  Lemma edges_of_cluster_items : edges_of (cluster_items t) = [].
  Proof. unfold cluster_items. induction (enumerate_from 0 (full_cfg_clusters t)) as [|e l IH]; cbn; [reflexivity | exact IH]. Qed.
  Lemma nodes_of_cluster_items : nodes_of (cluster_items t) = [].
  Proof. unfold cluster_items. induction (enumerate_from 0 (full_cfg_clusters t)) as [|e l IH]; cbn; [reflexivity | exact IH]. Qed.
  Lemma node_borders_of_cluster_items : node_borders_of (cluster_items t) = [].
  Proof. unfold cluster_items. induction (enumerate_from 0 (full_cfg_clusters t)) as [|e l IH]; cbn; [reflexivity | exact IH]. Qed.
  Lemma clusters_of_cluster_items : clusters_of (cluster_items t) = enumerate_from 0 (full_cfg_clusters t).
  Proof.
    unfold cluster_items. induction (enumerate_from 0 (full_cfg_clusters t)) as [|[k [nm ms]] l IH]; cbn; [reflexivity|].
    f_equal. exact IH.
  Qed.

  (* (2) the edges full_cfg_to_dot emits, with their colour classes and in emission order, are the model's *)
  Theorem full_items_edges : edges_of (full_items t color bf) = full_cfg_colored_edges_gen color t.
  Proof.
    unfold full_items, full_cfg_colored_edges_gen. rewrite edges_of_app, edges_of_cluster_items. cbn [app].
    unfold edges_of at 1. rewrite flat_map_flat_map. apply flat_map_ext_in. intros b _.
    fold (edges_of (node_items t color bf b)). unfold node_items.
    change (INode (b_idx b) (bf (b_idx b)) :: ?l) with ([INode (b_idx b) (bf (b_idx b))] ++ l).
    rewrite !edges_of_app, edges_of_edge_items, edges_of_call_items. reflexivity.
  Qed.

  Theorem full_items_nodes : nodes_of (full_items t color bf) = full_cfg_nodes t.
  Proof.
    unfold full_items, full_cfg_nodes. rewrite nodes_of_app, nodes_of_cluster_items. cbn [app].
    unfold nodes_of at 1. rewrite flat_map_flat_map. rewrite <- flat_map_single. apply flat_map_ext_in. intros b _.
    fold (nodes_of (node_items t color bf b)). unfold node_items.
    change (INode (b_idx b) (bf (b_idx b)) :: ?l) with ([INode (b_idx b) (bf (b_idx b))] ++ l).
    rewrite !nodes_of_app, nodes_of_edge_items, nodes_of_call_items. reflexivity.
  Qed.

  Theorem full_items_node_borders :
    node_borders_of (full_items t color bf) = map (fun n => (n, bf n)) (full_cfg_nodes t).
  Proof.
    unfold full_items, full_cfg_nodes. rewrite node_borders_of_app, node_borders_of_cluster_items. cbn [app].
    unfold node_borders_of at 1. rewrite flat_map_flat_map, map_map. rewrite <- flat_map_single. apply flat_map_ext_in. intros b _.
    fold (node_borders_of (node_items t color bf b)). unfold node_items.
    change (INode (b_idx b) (bf (b_idx b)) :: ?l) with ([INode (b_idx b) (bf (b_idx b))] ++ l).
    rewrite !node_borders_of_app, node_borders_of_edge_items, node_borders_of_call_items. reflexivity.
  Qed.

  (* cluster i is the i-th subroutine of teal.subroutines, with its blocks in DFS order *)
  Theorem full_items_clusters : clusters_of (full_items t color bf) = enumerate_from 0 (full_cfg_clusters t).
  Proof.
    unfold full_items. rewrite clusters_of_app, clusters_of_cluster_items.
    assert (E : clusters_of (flat_map (node_items t color bf) (t_blocks t)) = []).
    { unfold clusters_of at 1. rewrite flat_map_flat_map. apply flat_map_nil. intros b.
      fold (clusters_of (node_items t color bf b)). unfold node_items.
      change (INode (b_idx b) (bf (b_idx b)) :: ?l) with ([INode (b_idx b) (bf (b_idx b))] ++ l).
      rewrite !clusters_of_app, clusters_of_edge_items, clusters_of_call_items. reflexivity. }
    rewrite E. apply app_nil_r.
  Qed.
End FullItems.

(* for every parsed contract *)
Corollary full_cfg_to_dot_gen_parsed p t fn : parse_teal p = Ok t ->
  exists items, full_cfg_to_dot_gen t None fn = Some (out_of fn items) /\
    edges_of items = full_cfg_colored_edges t /\ nodes_of items = full_cfg_nodes t /\
    clusters_of items = enumerate_from 0 (full_cfg_clusters t) /\
    node_borders_of items = map (fun n => (n, if full_cfg_dark_border t n then BSub else BBlack)) (full_cfg_nodes t).
Proof.
  intros H. exists (full_items t true (default_border t)). split; [apply full_cfg_to_dot_gen_none, (parse_twf p t H)|].
  split; [apply full_items_edges|]. split; [apply full_items_nodes|]. split; [apply full_items_clusters|].
  apply full_items_node_borders.
Qed.

Corollary bb_to_dot_gen_parsed p t n b color bd : parse_teal p = Ok t -> tblock t n = Some b ->
  bb_to_dot_gen t n (mkConfig (ignore_callsub t) color (fun _ => ret bd)) =
  Some (INode n bd :: map (edge_item t n) (local_out color t b)).
Proof. intros H Hb. rewrite (bb_to_dot_gen_eq t (parse_twf p t H) n b color _ Hb). reflexivity. Qed.

(* ====================================================================== *)
(* 5. PrinterCallGraph                                                     *)
(* ====================================================================== *)
Lemma dict_set_fresh {V : Type} (d : list (string * V)) k v :
  ~ In k (map fst d) -> dict_set d k v = d ++ [(k, v)].
Proof.
  induction d as [|[k' v'] d IH]; intros Hk; cbn [dict_set app]; [reflexivity|].
  destruct (String.eqb k' k) eqn:E.
  - apply String.eqb_eq in E. exfalso. apply Hk. left. exact E.
  - rewrite IH; [reflexivity|]. intros Hin. apply Hk. right. exact Hin.
Qed.

Lemma fold_dict_set {A V : Type} (key : A -> string) (val : A -> V) (l : list A) :
  forall d, NoDup (map fst d ++ map key l) ->
  fold_left (fun st a => dict_set st (key a) (val a)) l d = d ++ map (fun a => (key a, val a)) l.
Proof.
  induction l as [|a l IH]; intros d Hnd; cbn [fold_left map]; [rewrite app_nil_r; reflexivity|].
  cbn [map] in Hnd. rewrite dict_set_fresh.
  - rewrite IH.
    + rewrite <- app_assoc. reflexivity.
    + rewrite map_app. cbn [map fst]. rewrite <- app_assoc. exact Hnd.
  - apply NoDup_remove_2 in Hnd. intros Hin. apply Hnd. apply in_or_app. left. exact Hin.
Qed.

Section CallGraphGen.
  Variable t : teal.
  Hypothesis Hwf : twf t.

  Lemma sources_glue g : In g (t_subs t) ->
    comp (fun _ : nat => ret true)
         (fun bi : nat => bind (attr_subroutine t bi) (fun tmp1 => ret (attr_name tmp1)))
         (attr_caller_blocks g)
    = Some (flat_map (fun c => match sub_of_block t c with Some r => [s_name r] | None => [] end) (s_callers g)).
  Proof.
    intros Hg. unfold attr_caller_blocks.
    rewrite (comp_some _ (fun c => match sub_of_block t c with Some r => s_name r | None => ""%string end)).
    - f_equal. assert (H : forall c, In c (s_callers g) -> exists r, sub_of_block t c = Some r).
      { intros c Hc. destruct (wf_callers t Hwf g c Hg Hc) as (b & r & _ & Hr). eauto. }
      induction (s_callers g) as [|c l IH]; cbn [map flat_map]; [reflexivity|].
      destruct (H c (or_introl eq_refl)) as (r & Hr). rewrite Hr. cbn [app]. f_equal. apply IH.
      intros c' Hc'. apply H. right. exact Hc'.
    - intros c Hc. destruct (wf_callers t Hwf g c Hg Hc) as (b & r & Hb & Hr).
      unfold attr_subroutine, attr_name. rewrite Hb. cbn [bind]. rewrite Hr. reflexivity.
  Qed.

  (* (3) graph[g.name] = set of the names of the routines of g's caller blocks, one entry per subroutine, in dict order *)
  Theorem construct_call_graph_gen_eq :
    construct_call_graph_gen t = Some (map (fun g => (s_name g, callgraph_sources t g)) (t_subs t)).
  Proof.
    unfold construct_call_graph_gen. cbv zeta.
    rewrite (fold_some _ (fun st e => dict_set st (s_name (snd e)) (callgraph_sources t (snd e)))).
    - unfold ret. cbn [bind]. f_equal. unfold attr_subroutines_items.
      rewrite <- (map_map (fun s => (s_name s, s)) (fun e => (s_name (snd e), callgraph_sources t (snd e)))).
      rewrite (fold_dict_set (fun e : string * subroutine => s_name (snd e)) (fun e => callgraph_sources t (snd e))).
      + reflexivity.
      + cbn [map app]. rewrite map_map. cbn [snd]. exact (wf_names t Hwf).
    - intros e He st. unfold attr_subroutines_items in He. apply in_map_iff in He. destruct He as (g & <- & Hg). cbn [snd].
      rewrite (sources_glue g Hg). unfold ret. cbn [bind]. unfold attr_name. rewrite str_set_dedup. reflexivity.
  Qed.

  Definition cg_items : list item :=
    map (fun n => ICgNode (html_escape n) (html_escape n)) (callgraph_nodes t) ++
    map (fun e => ICgEdge (html_escape (fst e)) (html_escape (snd e))) (callgraph_edges t).

  Lemma version_glue : Nat.ltb (attr_version t) 4 = negb (callgraph_exported t).
  Proof.
    unfold attr_version, callgraph_exported. rewrite Bool.negb_involutive.
    destruct (N.ltb (t_version t) 4) eqn:E.
    - apply N.ltb_lt in E. apply Nat.ltb_lt. lia.
    - apply N.ltb_ge in E. apply Nat.ltb_ge. lia.
  Qed.

  Lemma cg_fold (l : list (string * list string)) : forall a b,
    fold_left (fun (st : list item * list item) e =>
                 (fst st ++ [ICgNode (html_escape (fst e)) (html_escape (fst e))],
                  snd st ++ map (fun f => ICgEdge (html_escape f) (html_escape (fst e))) (snd e))) l (a, b)
    = (a ++ map (fun e => ICgNode (html_escape (fst e)) (html_escape (fst e))) l,
       b ++ flat_map (fun e => map (fun f => ICgEdge (html_escape f) (html_escape (fst e))) (snd e)) l).
  Proof.
    induction l as [|e l IH]; intros a b; cbn [fold_left map flat_map fst snd]; [rewrite !app_nil_r; reflexivity|].
    rewrite IH, <- !app_assoc. reflexivity.
  Qed.

  (* (3) call-graph.dot: nothing below version 4; else one node per subroutine (dict order), then the edges f -> g of
     Model/Output.v (callgraph_edges), names passed through html.escape *)
  Theorem print_gen_eq (cn : string) (root : list string) :
    print_gen t cn root =
    Some (if callgraph_exported t then Written (root ++ [cn] ++ ["call-graph.dot"]) cg_items else Nothing).
  Proof.
    unfold print_gen. cbv zeta. rewrite version_glue. destruct (callgraph_exported t); cbn [negb]; [|reflexivity].
    rewrite construct_call_graph_gen_eq. cbn [bind].
    rewrite (fold_some _ (fun (st : list item * list item) e =>
                 (fst st ++ [ICgNode (html_escape (fst e)) (html_escape (fst e))],
                  snd st ++ map (fun f => ICgEdge (html_escape f) (html_escape (fst e))) (snd e)))).
    - unfold ret. cbn [bind]. rewrite cg_fold. cbn [fst snd app]. rewrite app_nil_r, <- app_assoc. f_equal. f_equal.
      unfold cg_items, callgraph_nodes, callgraph_edges. rewrite !map_map. cbn [fst snd]. f_equal.
      induction (t_subs t) as [|g l IH]; cbn [flat_map map]; [reflexivity|].
      rewrite map_app, IH, !map_map. reflexivity.
    - intros e _ st. rewrite (fold_some _ (fun st2 f => st2 ++ [ICgEdge (html_escape f) (html_escape (fst e))])).
      + unfold ret. cbn [bind]. rewrite fold_app_map. reflexivity.
      + intros f _ st2. reflexivity.
  Qed.
End CallGraphGen.

(* ====================================================================== *)
(* 6. subroutine_to_dot                                                    *)
(* ====================================================================== *)
(* the dashed box of a call site: DOT node x<c>_<rp> / x<c>_none labelled "Subroutine <callee>", the edge c -> box and,
   when there is a return point, the edge box -> rp *)
Definition box_name (c : nat) (rp : option nat) : string :=
  ("x" ++ dec_of_nat c ++ "_" ++ match rp with Some r => dec_of_nat r | None => "none" end)%string.
Definition box_items (t : teal) (cb : nat * option nat * string) : list item :=
  IBox (box_name (fst (fst cb)) (snd (fst cb))) ("""Subroutine " ++ snd cb ++ """")%string ::
  IBoxIn (fst (fst cb)) (box_name (fst (fst cb)) (snd (fst cb))) ::
  match snd (fst cb) with
  | Some r => [IBoxOut (box_name (fst (fst cb)) (snd (fst cb))) r (tport t r)]
  | None => []
  end.
Definition block_boxes (t : teal) (n : nat) (b : block) : list (nat * option nat * string) :=
  match called_subroutine t b with Some cs => [(n, sub_return_point b, s_name cs)] | None => [] end.
(* what subroutine_to_dot emits for block n of the routine *)
Definition sub_node_items (t : teal) (color : bool) (bf : nat -> border) (n : nat) : list item :=
  match tblock t n with
  | Some b => (INode n (bf n) :: map (edge_item t n) (local_out color t b)) ++ flat_map (box_items t) (block_boxes t n b)
  | None => []
  end.
Definition sub_items (t : teal) (color : bool) (bf : nat -> border) (s : subroutine) : list item :=
  flat_map (sub_node_items t color bf) (s_blocks s).

Section SubroutineGen.
  Variable t : teal.
  Hypothesis Hwf : twf t.

  Lemma subroutine_to_dot_gen_none_config s :
    subroutine_to_dot_gen t s None = subroutine_to_dot_gen t s (Some default_config).
  Proof. reflexivity. Qed.

  (* the fragments appended to nodes_dot for block n *)
  Definition sub_frags (color : bool) (bf : nat -> border) (n : nat) : list (list item) :=
    match tblock t n with
    | Some b => (INode n (bf n) :: map (edge_item t n) (local_out color t b)) :: map (box_items t) (block_boxes t n b)
    | None => []
    end.

  Lemma concat_sub_frags color bf n : concat (sub_frags color bf n) = sub_node_items t color bf n.
  Proof.
    unfold sub_frags, sub_node_items. destruct (tblock t n) as [b|]; [|reflexivity]. cbn [concat].
    rewrite flat_map_concat_map. reflexivity.
  Qed.

  Theorem subroutine_to_dot_gen_some s c bf : routine t s ->
    (forall n, In n (s_blocks s) -> cfg_bb_border_color c n = Some (bf n)) ->
    subroutine_to_dot_gen t s (Some c) = Some (sub_items t (cfg_color_edges c) bf s).
  Proof.
    intros Hr Hbord. unfold subroutine_to_dot_gen. cbv zeta. unfold set_ignore_edge. fold (ignore_callsub t).
    unfold attr_blocks.
    rewrite (fold_some _ (fun st n => st ++ sub_frags (cfg_color_edges c) bf n)).
    - unfold ret. cbn [bind]. rewrite fold_app_flat. cbn [app]. f_equal. unfold sub_items.
      rewrite concat_flat_map. apply flat_map_ext_in. intros n _. apply concat_sub_frags.
    - intros n Hn st. destruct (wf_blocks t Hwf s n Hr Hn) as (b & Hb).
      rewrite (bb_to_dot_gen_eq t Hwf n b _ _ Hb). rewrite (Hbord n Hn). unfold ret. cbn [bind].
      rewrite (is_callsub_glue t Hwf n b Hb). unfold sub_frags, block_boxes. rewrite Hb.
      destruct (is_callsub_block t b) eqn:Ecs; cbn [ifE].
      + destruct (callsub_exit t b Ecs) as (l & Hl). destruct (wf_callee t Hwf n b l Hb Hl) as (cs & Hs & Hsin).
        unfold attr_called_subroutine. rewrite Hb. cbn [bind]. rewrite Hs. cbn [bind].
        rewrite (sub_return_point_glue t Hwf n b Hb Ecs). cbn [bind]. unfold attr_block_idx, attr_name.
        destruct (sub_return_point b) as [rp|] eqn:Erp.
        * assert (Hrp : exists b', tblock t rp = Some b').
          { apply (wf_next t Hwf n b rp Hb). unfold sub_return_point in Erp. destruct (b_next b); [discriminate|].
            inversion Erp. left. reflexivity. }
          destruct Hrp as (b' & Hrp). rewrite (port_glue t Hwf rp b' Hrp). cbn [bind].
          rewrite <- app_assoc. reflexivity.
        * cbn [bind]. rewrite <- app_assoc. reflexivity.
      + rewrite (is_callsub_called t b Ecs). reflexivity.
  Qed.

  Corollary subroutine_to_dot_gen_none s : routine t s ->
    subroutine_to_dot_gen t s None = Some (sub_items t true (fun _ => BBlack) s).
  Proof.
    intros Hr. rewrite subroutine_to_dot_gen_none_config.
    apply (subroutine_to_dot_gen_some s default_config (fun _ => BBlack) Hr). intros n _. reflexivity.
  Qed.
End SubroutineGen.

(* projections: the boxes *)
Definition box_part (l : list item) : list item :=
  filter (fun i => match i with IBox _ _ | IBoxIn _ _ | IBoxOut _ _ _ => true | _ => false end) l.

Lemma filter_flat_map {A B : Type} (f : B -> bool) (g : A -> list B) (l : list A) :
  filter f (flat_map g l) = flat_map (fun x => filter f (g x)) l.
Proof. induction l as [|a l IH]; cbn [flat_map filter]; [reflexivity|]. rewrite filter_app, IH. reflexivity. Qed.

Lemma box_part_box_items t cb : box_part (box_items t cb) = box_items t cb.
Proof. destruct cb as [[c [r|]] nm]; reflexivity. Qed.
Lemma box_part_edge_items t n l : box_part (map (edge_item t n) l) = [].
Proof. induction l as [|e l IH]; cbn; [reflexivity | exact IH]. Qed.
Lemma edges_of_box_items t cb : edges_of (box_items t cb) = [].
Proof. destruct cb as [[c [r|]] nm]; reflexivity. Qed.
Lemma nodes_of_box_items t cb : nodes_of (box_items t cb) = [].
Proof. destruct cb as [[c [r|]] nm]; reflexivity. Qed.

Lemma nodes_of_flat {A : Type} (f : A -> list item) l : nodes_of (flat_map f l) = flat_map (fun x => nodes_of (f x)) l.
Proof. unfold nodes_of. apply flat_map_flat_map. Qed.
Lemma edges_of_flat {A : Type} (f : A -> list item) l : edges_of (flat_map f l) = flat_map (fun x => edges_of (f x)) l.
Proof. unfold edges_of. apply flat_map_flat_map. Qed.
Lemma box_part_app l1 l2 : box_part (l1 ++ l2) = box_part l1 ++ box_part l2.
Proof. apply filter_app. Qed.
Lemma box_part_flat {A : Type} (f : A -> list item) l : box_part (flat_map f l) = flat_map (fun x => box_part (f x)) l.
Proof. unfold box_part. apply filter_flat_map. Qed.

Section SubItems.
  Variable t : teal.
  Hypothesis Hwf : twf t.
  Variables (color : bool) (bf : nat -> border) (s : subroutine).
  Hypothesis Hr : routine t s.

  (* (4) nodes = the blocks of the routine; block -> block edges = sub_cfg_colored_edges; boxes = sub_cfg_callboxes *)
  Theorem sub_items_nodes : nodes_of (sub_items t color bf s) = sub_cfg_nodes t s.
  Proof.
    unfold sub_items, sub_cfg_nodes. rewrite nodes_of_flat.
    rewrite <- (map_id (s_blocks s)) at 2. rewrite <- (flat_map_single (fun n : nat => n)).
    apply flat_map_ext_in. intros n Hn. destruct (wf_blocks t Hwf s n Hr Hn) as (b & Hb).
    unfold sub_node_items. rewrite Hb.
    change (INode n (bf n) :: ?l) with ([INode n (bf n)] ++ l). rewrite !nodes_of_app, nodes_of_edge_items.
    unfold block_boxes. destruct (called_subroutine t b); cbn [flat_map]; [rewrite !app_nil_r, nodes_of_box_items|]; reflexivity.
  Qed.

  Theorem sub_items_edges : edges_of (sub_items t color bf s) =
    flat_map (fun n => match tblock t n with
                       | Some b => map (fun '(m, c) => (n, m, c)) (local_out color t b)
                       | None => [] end) (s_blocks s).
  Proof.
    unfold sub_items. rewrite edges_of_flat. apply flat_map_ext_in. intros n _.
    unfold sub_node_items. destruct (tblock t n) as [b|]; [|reflexivity].
    change (INode n (bf n) :: ?l) with ([INode n (bf n)] ++ l). rewrite !edges_of_app, edges_of_edge_items.
    unfold block_boxes. destruct (called_subroutine t b); cbn [flat_map]; [rewrite !app_nil_r, edges_of_box_items|];
      cbn [edges_of flat_map app]; rewrite app_nil_r; reflexivity.
  Qed.

  Theorem sub_items_boxes : box_part (sub_items t color bf s) = flat_map (box_items t) (sub_cfg_callboxes t s).
  Proof.
    unfold sub_items, sub_cfg_callboxes. rewrite box_part_flat, flat_map_flat_map. apply flat_map_ext_in. intros n _.
    unfold sub_node_items. destruct (tblock t n) as [b|]; [|reflexivity].
    change (INode n (bf n) :: ?l) with ([INode n (bf n)] ++ l). rewrite !box_part_app, box_part_edge_items.
    unfold block_boxes. destruct (called_subroutine t b) as [cs|]; cbn [flat_map]; [|reflexivity].
    rewrite !app_nil_r. cbn [box_part filter app]. apply box_part_box_items.
  Qed.
End SubItems.

Corollary sub_items_colored_edges t bf s : edges_of (sub_items t true bf s) = sub_cfg_colored_edges t s.
Proof. apply (sub_items_edges t true bf s). Qed.

(* ====================================================================== *)
(* 7. ExecutionPaths: _short_notation, filter_paths, generate_output       *)
(* ====================================================================== *)
Theorem short_notation_gen_eq path : short_notation_gen path = Some (short_notation path).
Proof. unfold short_notation_gen, short_notation, nums_text, attr_block_idx. rewrite map_id. reflexivity. Qed.

(* re.search is a parameter on both sides: the generated function takes the partial re_search (None = re.error), the
   model the total search; they agree when re_search is total on the pattern *)
Theorem filter_paths_gen_eq (re_search : string -> string -> py bool) (search : string -> string -> bool) pattern paths :
  (forall text, re_search pattern text = Some (search pattern text)) ->
  filter_paths_gen re_search paths pattern = Some (filter_paths search pattern paths).
Proof.
  intros Hs. unfold filter_paths_gen, filter_paths. destruct (String.eqb pattern "") eqn:E; [reflexivity|]. cbv zeta.
  rewrite (fold_some _ (fun st path => if negb (search pattern (short_notation path)) then st ++ [path] else st)).
  - unfold ret. cbn [bind]. f_equal.
    assert (G : forall l acc, fold_left (fun st path => if negb (search pattern (short_notation path)) then st ++ [path] else st) l acc
                              = acc ++ filter (fun path => negb (search pattern (short_notation path))) l).
    { induction l as [|a l IH]; intros acc; cbn [fold_left filter]; [rewrite app_nil_r; reflexivity|].
      rewrite IH. destruct (negb (search pattern (short_notation a))); [rewrite <- app_assoc|]; reflexivity. }
    rewrite G. reflexivity.
  - intros path _ st. rewrite short_notation_gen_eq. cbn [bind]. unfold call_re_search. rewrite Hs. cbn [notE option_map ifE].
    destruct (search pattern (short_notation path)); reflexivity.
Qed.

(* when re.search raises on the pattern, so does filter_paths (unless there is nothing to filter) *)
Theorem filter_paths_gen_error (re_search : string -> string -> py bool) pattern path paths :
  pattern <> ""%string -> (forall text, re_search pattern text = None) ->
  filter_paths_gen re_search (path :: paths) pattern = None.
Proof.
  intros Hne Hs. unfold filter_paths_gen. destruct (String.eqb pattern "") eqn:E; [apply String.eqb_eq in E; congruence|].
  cbv zeta. cbn [fold_left]. unfold ret at 2. cbn [bind]. rewrite short_notation_gen_eq. cbn [bind]. unfold call_re_search.
  rewrite Hs. cbn [notE option_map ifE].
  assert (G : forall l, fold_left (fun acc1 path0 => bind acc1 (fun st1 =>
                 ifE (notE (bind (short_notation_gen path0) (fun tmp1 => re_search pattern tmp1)))
                     (ret (st1 ++ [path0])) (ret st1))) l None = None).
  { induction l as [|a l IH]; cbn [fold_left bind]; [reflexivity | exact IH]. }
  rewrite G. reflexivity.
Qed.

Section GenerateOutput.
  Variable t : teal.
  Hypothesis Hwf : twf t.
  Variable det : string.

  Definition path_border (path : list nat) (n : nat) : border := if path_marks path n then BRed else BBlack.

  (* the file written for the i-th path: <dest>/<detector>/<detector>-<i>.dot, the full CFG without the bz/bnz
     colouring, border RED exactly for the blocks of the path *)
  Definition path_file (dest : list string) (e : nat * list nat) : dotout :=
    Written (dest ++ [det] ++ [path_filename det (fst e)]) (full_items t false (path_border (snd e))).

  Definition path_lambda (path : list nat) : nat -> py border :=
    fun bb : nat => ret (if negb (nat_mem (attr_block_idx bb) (map (fun bb0 : nat => attr_block_idx bb0) path))
                         then BBlack else BRed).

  Lemma path_lambda_glue path n : path_lambda path n = Some (path_border path n).
  Proof.
    unfold path_lambda, path_border, path_marks, attr_block_idx, ret. rewrite map_id. destruct (nat_mem n path); reflexivity.
  Qed.

  Lemma files_fold (dest : list string) (col : bool) (l : list (nat * list nat)) : forall c fs, cfg_color_edges c = col ->
    snd (fold_left (fun (st : dotconfig * list dotout) e =>
                      (set_bb_border_color (fst st) (path_lambda (snd e)),
                       snd st ++ [Written ((dest ++ [det]) ++ [path_filename det (fst e)])
                                    (full_items t (cfg_color_edges (fst st)) (path_border (snd e)))])) l (c, fs))
    = fs ++ map (fun e => Written ((dest ++ [det]) ++ [path_filename det (fst e)]) (full_items t col (path_border (snd e)))) l.
  Proof.
    induction l as [|e l IH]; intros c fs Hc; cbn [fold_left map fst snd]; [rewrite app_nil_r; reflexivity|].
    rewrite IH; [|exact Hc]. rewrite Hc, <- app_assoc. reflexivity.
  Qed.

  (* (5) generate_output: nothing for an empty result; else one file per path, numbered from 1 in the order of self.paths *)
  Theorem generate_output_gen_eq (paths : list (list nat)) (dest : list string) :
    generate_output_gen t det paths dest =
    Some (negb (list_is_empty paths), map (path_file dest) (path_file_indices paths)).
  Proof.
    unfold generate_output_gen. cbv zeta. destruct paths as [|p0 ps]; [reflexivity|]. cbn [list_is_empty negb].
    unfold detector_ouptut_dir_gen. unfold ret at 1. cbn [bind].
    rewrite (fold_some _ (fun (st : dotconfig * list dotout) e =>
                      (set_bb_border_color (fst st) (path_lambda (snd e)),
                       snd st ++ [Written ((dest ++ [det]) ++ [path_filename det (fst e)])
                                    (full_items t (cfg_color_edges (fst st)) (path_border (snd e)))]))).
    - unfold ret. cbn [bind]. rewrite (files_fold dest false); [|reflexivity]. cbn [app]. f_equal. f_equal.
      unfold path_file_indices, enumerate_from. apply map_ext. intros e. unfold path_file. rewrite <- app_assoc. reflexivity.
    - intros e _ st. rewrite short_notation_gen_eq. cbn [bind]. unfold filename_gen, ret. cbn [bind].
      fold (path_lambda (snd e)).
      rewrite (full_cfg_to_dot_gen_some t Hwf _ _ (path_border (snd e))).
      + cbn [bind out_of]. reflexivity.
      + intros b _. cbn [set_bb_border_color cfg_bb_border_color]. apply path_lambda_glue.
  Qed.
End GenerateOutput.

(* ====================================================================== *)
(* 8. Transported theorems: results of Lemmas/OutputLemmas.v / Props/C18.v restated for the generated functions *)
(* ====================================================================== *)
Lemma edges_of_In l s d c : In (s, d, c) (edges_of l) <-> exists p, In (IEdge s d p c) l.
Proof.
  unfold edges_of. rewrite in_flat_map. split.
  - intros (i & Hi & Hin). destruct i; try contradiction. destruct Hin as [E|[]]. inversion E; subst. eauto.
  - intros (p & Hin). exists (IEdge s d p c). split; [exact Hin | left; reflexivity].
Qed.

Lemma nodes_of_In l n : In n (nodes_of l) <-> exists bd, In (INode n bd) l.
Proof.
  unfold nodes_of. rewrite in_flat_map. split.
  - intros (i & Hi & Hin). destruct i; try contradiction. destruct Hin as [E|[]]. subst. eauto.
  - intros (bd & Hin). exists (INode n bd). split; [exact Hin | left; reflexivity].
Qed.

Lemma node_borders_of_In l n bd : In (n, bd) (node_borders_of l) <-> In (INode n bd) l.
Proof.
  unfold node_borders_of. rewrite in_flat_map. split.
  - intros (i & Hi & Hin). destruct i; try contradiction. destruct Hin as [E|[]]. inversion E; subst. exact Hi.
  - intros Hin. exists (INode n bd). split; [exact Hin | left; reflexivity].
Qed.

(* (1) local_out_In: the edges _bb_to_dot (as called by the exporters) draws from a block go to exactly its
   successors, none from a callsub block *)
Theorem bb_to_dot_gen_targets p t n b color bd : parse_teal p = Ok t -> tblock t n = Some b ->
  exists items, bb_to_dot_gen t n (mkConfig (ignore_callsub t) color (fun _ => ret bd)) = Some (INode n bd :: items) /\
    forall m, (exists pt c, In (IEdge n m pt c) items) <-> is_callsub_block t b = false /\ In m (b_next b).
Proof.
  intros H Hb. exists (map (edge_item t n) (local_out color t b)). split; [apply (bb_to_dot_gen_parsed p t n b color bd H Hb)|].
  intros m. rewrite <- (local_out_In color t b m (cond_branch_next_shape p t n b H Hb)). split.
  - intros (pt & c & Hin). apply in_map_iff in Hin. destruct Hin as ([m' c'] & E & Hin). inversion E; subst. eauto.
  - intros (c & Hin). exists (tport t m), c. apply in_map_iff. exists (m, c). split; [reflexivity | exact Hin].
Qed.

(* (2) C18_cfg_edges_exact / C18_cfg_nodes: what the generated full_cfg_to_dot draws for a parsed contract: one node per
   retained block, and an edge b -> b' exactly for the pairs of the global graph relation cfg_edge *)
Theorem full_cfg_to_dot_gen_exact p t : parse_teal p = Ok t ->
  exists items, full_cfg_to_dot_gen t None None = Some (Returned items) /\
    (forall b b', (exists pt c, In (IEdge b b' pt c) items) <-> cfg_edge t b b') /\
    NoDup (nodes_of items) /\
    (forall n, (exists bd, In (INode n bd) items) <-> exists b, tblock t n = Some b).
Proof.
  intros H. destruct (full_cfg_to_dot_gen_parsed p t None H) as (items & Hgen & He & Hn & _).
  exists items. split; [exact Hgen|]. split; [|split].
  - intros b b'. rewrite <- (full_cfg_edges_exact p t H b b'). unfold full_cfg_edges. rewrite in_uncolor, <- He. split.
    + intros (pt & c & Hin). exists c. apply edges_of_In. eauto.
    + intros (c & Hin). apply edges_of_In in Hin. destruct Hin as (pt & Hin). eauto.
  - rewrite Hn. apply (full_cfg_nodes_spec p t H).
  - intros n. rewrite <- nodes_of_In, Hn. apply (full_cfg_nodes_spec p t H).
Qed.

(* (3) callgraph_edges_exact: call-graph.dot has the edge fn -> g (names html-escaped) exactly when a retained callsub
   block assigned to routine fn targets g *)
Theorem print_gen_edges_exact p t cn root : parse_teal p = Ok t -> callgraph_exported t = true ->
  exists file items, print_gen t cn root = Some (Written file items) /\
    forall x y, In (ICgEdge x y) items <->
      exists fn g, x = html_escape fn /\ y = html_escape g /\
        exists c b r, tblock t c = Some b /\ exit_op t b = Some (ICallsub g) /\ sub_of_block t c = Some r /\ s_name r = fn.
Proof.
  intros H Hv. exists (root ++ [cn] ++ ["call-graph.dot"]), (cg_items t). split.
  - rewrite (print_gen_eq t (parse_twf p t H)), Hv. reflexivity.
  - intros x y. unfold cg_items. rewrite in_app_iff. split.
    + intros [Hin|Hin]; apply in_map_iff in Hin.
      * destruct Hin as (n & E & _). discriminate.
      * destruct Hin as ([fn g] & E & Hin). inversion E; subst. exists fn, g. split; [reflexivity|]. split; [reflexivity|].
        apply (callgraph_edges_exact p t H fn g). exact Hin.
    + intros (fn & g & -> & -> & Hex). right. apply in_map_iff. exists (fn, g). split; [reflexivity|].
      apply (callgraph_edges_exact p t H fn g). exact Hex.
Qed.

(* (4) C18_subroutine_cfg_edges: the block -> block edges of a routine's file are the local edges of its blocks, none
   leaving a callsub block *)
Theorem subroutine_to_dot_gen_edges_exact p t s : parse_teal p = Ok t -> routine t s ->
  exists items, subroutine_to_dot_gen t s None = Some items /\
    (forall b b', (exists pt c, In (IEdge b b' pt c) items) <->
       In b (s_blocks s) /\ exists blk, tblock t b = Some blk /\ is_callsub_block t blk = false /\ In b' (b_next blk)) /\
    nodes_of items = s_blocks s /\
    box_part items = flat_map (box_items t) (sub_cfg_callboxes t s).
Proof.
  intros H Hr. pose proof (parse_twf p t H) as Hwf. exists (sub_items t true (fun _ => BBlack) s).
  split; [apply (subroutine_to_dot_gen_none t Hwf s Hr)|]. split; [|split].
  - intros b b'. rewrite <- (sub_cfg_edges_exact p t H s b b'). unfold sub_cfg_edges. rewrite in_uncolor, <- (sub_items_colored_edges t (fun _ => BBlack) s). split.
    + intros (pt & c & Hin). exists c. apply edges_of_In. eauto.
    + intros (c & Hin). apply edges_of_In in Hin. destruct Hin as (pt & Hin). eauto.
  - apply (sub_items_nodes t Hwf true _ s Hr).
  - apply sub_items_boxes.
Qed.

(* (5) C18_filter_paths / C18_path_marks *)
Theorem filter_paths_gen_spec (re_search : string -> string -> py bool) (search : string -> string -> bool) pattern paths :
  (forall text, re_search pattern text = Some (search pattern text)) -> pattern <> ""%string ->
  exists kept, filter_paths_gen re_search paths pattern = Some kept /\
    forall path, In path kept <-> In path paths /\ search pattern (short_notation path) = false.
Proof.
  intros Hs Hne. exists (filter_paths search pattern paths). split; [apply filter_paths_gen_eq; exact Hs|].
  intros path. apply filter_paths_spec. exact Hne.
Qed.

Theorem generate_output_gen_marks p t det paths dest : parse_teal p = Ok t ->
  exists files, generate_output_gen t det paths dest = Some (negb (list_is_empty paths), files) /\
    length files = length paths /\
    forall i path, nth_error paths i = Some path ->
      exists items, nth_error files i = Some (Written (dest ++ [det] ++ [path_filename det (S i)]) items) /\
        edges_of items = path_cfg_colored_edges t /\ nodes_of items = path_cfg_nodes t /\
        forall n, In n (path_cfg_nodes t) -> (In (INode n BRed) items <-> In n path) /\ (In (INode n BBlack) items <-> ~ In n path).
Proof.
  intros H. pose proof (parse_twf p t H) as Hwf. exists (map (path_file t det dest) (path_file_indices paths)).
  split; [apply (generate_output_gen_eq t Hwf)|].
  assert (Hlen : length (path_file_indices paths) = length paths).
  { unfold path_file_indices. rewrite combine_length, seq_length. apply Nat.min_id. }
  split; [rewrite map_length; exact Hlen|].
  intros i path Hi. exists (full_items t false (path_border path)).
  assert (Hnth : nth_error (path_file_indices paths) i = Some (S i, path)).
  { unfold path_file_indices. rewrite nth_error_combine, nth_error_seq'. 
    assert (Hlt : i < length paths) by (apply nth_error_Some; congruence).
    apply Nat.ltb_lt in Hlt. rewrite Hlt, Hi. reflexivity. }
  split; [rewrite nth_error_map, Hnth; reflexivity|].
  split; [apply full_items_edges|]. split; [apply full_items_nodes|].
  intros n Hn. rewrite <- !node_borders_of_In, full_items_node_borders. unfold path_border.
  rewrite <- (path_marks_spec path n). split; split.
  - intros Hin. apply in_map_iff in Hin. destruct Hin as (m & E & _). inversion E; subst. destruct (path_marks path n); [reflexivity | discriminate].
  - intros Hm. apply in_map_iff. exists n. rewrite Hm. split; [reflexivity | exact Hn].
  - intros Hin. apply in_map_iff in Hin. destruct Hin as (m & E & _). inversion E; subst. destruct (path_marks path n); [discriminate | congruence].
  - intros Hm. apply in_map_iff. exists n. destruct (path_marks path n); [congruence|]. split; [reflexivity | exact Hn].
Qed.

(* ====================================================================== *)
(* 9. Parsed-contract forms of the equalities                               *)
(* ====================================================================== *)
Corollary construct_call_graph_gen_parsed p t : parse_teal p = Ok t ->
  construct_call_graph_gen t = Some (map (fun g => (s_name g, callgraph_sources t g)) (t_subs t)).
Proof. intros H. apply construct_call_graph_gen_eq, (parse_twf p t H). Qed.

Corollary print_gen_parsed p t cn root : parse_teal p = Ok t ->
  print_gen t cn root = Some (if callgraph_exported t then Written (root ++ [cn] ++ ["call-graph.dot"]) (cg_items t) else Nothing).
Proof. intros H. apply print_gen_eq, (parse_twf p t H). Qed.

Corollary subroutine_to_dot_gen_parsed p t s : parse_teal p = Ok t -> routine t s ->
  subroutine_to_dot_gen t s None = Some (sub_items t true (fun _ => BBlack) s).
Proof. intros H Hr. apply (subroutine_to_dot_gen_none t (parse_twf p t H) s Hr). Qed.

Corollary generate_output_gen_parsed p t det paths dest : parse_teal p = Ok t ->
  generate_output_gen t det paths dest = Some (negb (list_is_empty paths), map (path_file t det dest) (path_file_indices paths)).
Proof. intros H. apply (generate_output_gen_eq t (parse_twf p t H)). Qed.

(* ====================================================================== *)
(* 10. Where the Python and Model/Output.v differ                           *)
(* ====================================================================== *)
(* PrinterCallGraph.print passes every name through html.escape(.., quote=True); Model/Output.v (callgraph_nodes,
   callgraph_edges) lists the raw names.  They differ exactly on the contracts that have a subroutine whose label contains
   one of the five characters html.escape rewrites: ampersand, less-than, greater-than, double and single quote (print_gen_parsed states the exact relation).  Witness (checked against the tool: it writes
   `a&amp;b[label=a&amp;b];` and `__main__ -> a&amp;b;`): *)
Definition ex_amp_lines : list string := ["#pragma version 6"; "callsub a&b"; "int 1"; "return"; "a&b:"; "retsub"].
Definition ex_amp_teal : teal := Eval vm_compute in teal_of_prog (prog_of_lines ex_amp_lines).
Theorem callgraph_html_escape_witness :
  parse_teal (prog_of_lines ex_amp_lines) = Ok ex_amp_teal /\
  print_gen ex_amp_teal "c" ["r"] =
    Some (Written ["r"; "c"; "call-graph.dot"] [ICgNode "a&amp;b" "a&amp;b"; ICgEdge "__main__" "a&amp;b"]) /\
  callgraph_nodes ex_amp_teal = ["a&b"] /\ callgraph_edges ex_amp_teal = [("__main__", "a&b")].
Proof. vm_compute. repeat split. Qed.

(* the translated functions on the example of Lemmas/OutputLemmas.v (compared with the tool's output there) and on the
   contract whose last instruction is a callsub (no return point: the callee-entry edge is drawn, no retsub edge) *)
Example ex_last_full_gen :
  full_cfg_to_dot_gen ex_last_teal None None =
  Some (Returned [ICluster 0 "f" [1]; INode 0 BSub; IEdge 0 2 5 EPlain; INode 1 BBlack; INode 2 BSub; IEdge 2 1 3 ECall]).
Proof. vm_compute. reflexivity. Qed.
Example ex_last_sub_gen :
  subroutine_to_dot_gen ex_last_teal (t_main ex_last_teal) None =
  Some [INode 0 BBlack; IEdge 0 2 5 EPlain; INode 2 BBlack; IBox "x2_none" """Subroutine f"""; IBoxIn 2 "x2_none"].
Proof. vm_compute. reflexivity. Qed.

Print Assumptions parse_twf.
Print Assumptions bb_to_dot_gen_eq.
Print Assumptions bb_to_dot_gen_parsed.
Print Assumptions full_cfg_to_dot_gen_some.
Print Assumptions full_cfg_to_dot_gen_none.
Print Assumptions full_cfg_to_dot_gen_parsed.
Print Assumptions full_items_edges.
Print Assumptions full_items_nodes.
Print Assumptions full_items_clusters.
Print Assumptions full_items_node_borders.
Print Assumptions construct_call_graph_gen_parsed.
Print Assumptions print_gen_parsed.
Print Assumptions subroutine_to_dot_gen_some.
Print Assumptions subroutine_to_dot_gen_parsed.
Print Assumptions sub_items_nodes.
Print Assumptions sub_items_colored_edges.
Print Assumptions sub_items_boxes.
Print Assumptions short_notation_gen_eq.
Print Assumptions filter_paths_gen_eq.
Print Assumptions filter_paths_gen_error.
Print Assumptions generate_output_gen_parsed.
Print Assumptions bb_to_dot_gen_targets.
Print Assumptions full_cfg_to_dot_gen_exact.
Print Assumptions print_gen_edges_exact.
Print Assumptions subroutine_to_dot_gen_edges_exact.
Print Assumptions filter_paths_gen_spec.
Print Assumptions generate_output_gen_marks.
Print Assumptions callgraph_html_escape_witness.
