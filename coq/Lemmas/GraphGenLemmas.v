(* The global-graph helpers and the solver's neighbourhood functions REGENERATED from tealer's Python source
   (Gen/GraphGen.v: next_blocks_global_gen, prev_blocks_global_gen, leaf_block_global_gen, translated statement by
   statement from utils/analyses.py; calculate_reachin_gen, calculate_livein_gen from
   DataflowTransactionContext._calculate_reachin / _calculate_livein) against the hand-written next_global,
   prev_global, leaf_global, reachin, livein of Model/Analysis.v.

   Result.  For EVERY function f and every block b of f -- in the form `fblock f n = Some b`, the only way the model
   reaches a block; no graph_ok / defined_okb hypothesis is needed: wherever a lookup of the Python side is undefined
   (KeyError, TealerException, dangling reference) the hand-written side is None as well --
        prev_blocks_global_gen f n = prev_global f b                               (prev_blocks_global_gen_eq)
        leaf_block_global_gen  f n = Some (leaf_global f b)                        (leaf_block_global_gen_eq)
        calculate_reachin_gen .. f n st = reachin .. f st b   for every domain     (calculate_reachin_gen_eq)
   and, when no subroutine of the contract carries the name "" the model reserves for the function's main
   (main_name_fresh f: f_find_sub f "" = None),
        next_blocks_global_gen f n = next_global f b                               (next_blocks_global_gen_eq)
        calculate_livein_gen .. f n st = livein .. f st b     for every domain     (calculate_livein_gen_eq)
   The hypothesis is needed (next_blocks_global_gen_eq_refuted): on a block ending in `callsub ""` of a func value that
   has a subroutine named "", the glue reads the entry of "" as the function's entry (sub_entry_of, the reading
   prev_global itself uses) while next_global looks the subroutine up by name.  This is a representation artefact of
   the model (the name "" for main), not a behaviour of the tool: a label cannot be empty in a parsed contract.
   Corollaries restate the results for `In b (fn_blocks f)` under NoDup (ids f), and transport the definedness
   results of Lemmas/TotalSolver.v: under defined_okb f the translated functions raise no Python exception
   (graph_gen_no_exception, solver_gen_no_exception). *)
From Coq Require Import String List NArith ZArith Bool Arith Lia.
From Tealer Require Import Tables Syntax Parse Cfg StackAst Keys KeysGen Analysis GraphGen SolverLemmas TotalSolver.
Import ListNotations.
Open Scope string_scope.
Open Scope list_scope.

(* no subroutine of the contract carries the name the model reserves for the function's main *)
Definition main_name_fresh (f : func) : Prop := f_find_sub f "" = None.

(* ====================================================================== *)
(* 0. Small facts                                                          *)
(* ====================================================================== *)
Lemma find_name_some (l : list subroutine) s :
  In s l -> exists s', find (fun x => s_name x =? s_name s) l = Some s'.
Proof.
  intros Hin. destruct (find (fun x => s_name x =? s_name s) l) as [s'|] eqn:E; [eauto|].
  eapply find_none in E; [|exact Hin]. cbn beta in E. rewrite String.eqb_refl in E. discriminate.
Qed.

(* the subroutine a block is assigned to has an entry *)
Lemma sub_of_entry f n name : f_sub_of f n = Some name -> exists e, sub_entry_of f name = Some e.
Proof.
  unfold f_sub_of, sub_entry_of. destruct (nat_mem n (fn_main f)).
  - intros H. injection H as <-. cbn. eauto.
  - intros H. destruct (find (fun s => nat_mem n (s_blocks s)) (rev (fn_all_subs f))) as [s|] eqn:E; [|discriminate].
    cbn in H. injection H as <-. destruct (s_name s =? "") eqn:En; [eauto|].
    apply find_some in E. destruct E as [Hin _]. apply in_rev in Hin.
    unfold f_find_sub. destruct (find_name_some _ _ Hin) as [s' ->]. cbn. eauto.
Qed.

Lemma fold_left_ext {A B} (g1 g2 : A -> B -> A) :
  (forall a x, g1 a x = g2 a x) -> forall l a, fold_left g1 l a = fold_left g2 l a.
Proof. intros H l. induction l as [|x l IH]; intros a; cbn; [reflexivity|]. rewrite H. apply IH. Qed.

Lemma fblock_of_In f b : NoDup (ids f) -> In b (fn_blocks f) -> fblock f (b_idx b) = Some b.
Proof.
  unfold ids, fblock. induction (fn_blocks f) as [|x l IH]; intros Hnd Hin; [destruct Hin|].
  cbn in Hnd. inversion Hnd as [|? ? Hx Hl]; subst. cbn. destruct Hin as [->|Hin].
  - rewrite Nat.eqb_refl. reflexivity.
  - destruct (Nat.eqb (b_idx x) (b_idx b)) eqn:E; [|auto].
    apply Nat.eqb_eq in E. exfalso. apply Hx. rewrite E. apply in_map. exact Hin.
Qed.

(* ====================================================================== *)
(* 1. next_blocks_global                                                   *)
(* ====================================================================== *)
Theorem next_blocks_global_gen_eq : forall f n b,
  main_name_fresh f -> fblock f n = Some b -> next_blocks_global_gen f n = next_global f b.
Proof.
  intros f n b Hmain Hb. pose proof (fblock_idx _ _ _ Hb) as Hi. subst n.
  unfold next_blocks_global_gen, next_global, attr_is_retsub_block, attr_is_callsub_block, attr_subroutine,
    attr_called_subroutine, attr_next, meth_return_point_blocks.
  rewrite Hb. cbn [option_map bind ifE].
  destruct (f_is_retsub f b) eqn:Hr.
  - destruct (f_sub_of f (b_idx b)) as [name|]; [|reflexivity]. cbn [bind]. destruct (f_used_sub f name); reflexivity.
  - unfold f_is_callsub. destruct (fexit_op f b) as [op|]; [|reflexivity].
    destruct op; try reflexivity.
    destruct (f_find_sub f l) as [s|] eqn:Hs; [|reflexivity].
    unfold attr_entry, sub_entry_of. cbn [bind].
    destruct (l =? "") eqn:El.
    + apply String.eqb_eq in El. subst l. unfold main_name_fresh in Hmain. rewrite Hmain in Hs. discriminate.
    + rewrite Hs. reflexivity.
Qed.

(* the hypothesis main_name_fresh is needed: a func value with a subroutine named "" *)
Definition w_prog : prog := [mkIns 1 (ICallsub ""); mkIns 2 IRetsub].
Definition w_func : func :=
  mkFunc w_prog [mkBlock 0 [0] [] []; mkBlock 1 [1] [] []] 0 [0] [mkSub "" 1 [1] [0]] [mkSub "" 1 [1] [0]] None.

Theorem next_blocks_global_gen_eq_refuted :
  exists f n b, fblock f n = Some b /\ next_blocks_global_gen f n = Some [0] /\ next_global f b = Some [1].
Proof. exists w_func, 0, (mkBlock 0 [0] [] []). vm_compute. repeat split. Qed.

(* ====================================================================== *)
(* 2. prev_blocks_global                                                   *)
(* ====================================================================== *)
Theorem prev_blocks_global_gen_eq : forall f n b,
  fblock f n = Some b -> prev_blocks_global_gen f n = prev_global f b.
Proof.
  intros f n b Hb. pose proof (fblock_idx _ _ _ Hb) as Hi. subst n.
  unfold prev_blocks_global_gen, prev_global, attr_teal, attr_subroutine, attr_is_sub_return_point,
    attr_callsub_block, attr_prev, attr_main, meth_caller_blocks.
  rewrite Hb. cbn [option_map bind ifE assertE ret opt_is_some].
  destruct (f_sub_of f (b_idx b)) as [name|] eqn:Hsub; [|reflexivity].
  destruct (sub_of_entry _ _ _ Hsub) as [e He]. cbn [bind]. unfold attr_entry. rewrite He. cbn [bind ifE ret].
  rewrite (Nat.eqb_sym (b_idx b) e).
  destruct (Nat.eqb e (b_idx b)).
  - cbn [ifE]. destruct (name =? ""); cbn [negb ifE]; [reflexivity|].
    destruct (f_used_sub f name); reflexivity.
  - cbn [ifE]. destruct (is_sub_return_point f b); cbn [ifE]; [|reflexivity].
    destruct (callsub_block_of f b) as [c|]; [|reflexivity]. cbn [bind].
    unfold attr_called_subroutine, attr_retsub_blocks.
    destruct (fblock f c) as [cb|]; [|reflexivity]. cbn [bind].
    destruct (fexit_op f cb) as [op|]; [|reflexivity].
    destruct op; try reflexivity.
    destruct (f_find_sub f l) as [s|] eqn:Hs; [|reflexivity]. cbn [bind]. rewrite Hs. reflexivity.
Qed.

(* ====================================================================== *)
(* 3. leaf_block_global                                                    *)
(* ====================================================================== *)
Theorem leaf_block_global_gen_eq : forall f n b,
  fblock f n = Some b -> leaf_block_global_gen f n = Some (leaf_global f b).
Proof.
  intros f n b Hb.
  unfold leaf_block_global_gen, leaf_global, attr_next, attr_is_retsub_block, attr_is_callsub_block.
  rewrite Hb. cbn [option_map bind ret notE andE].
  destruct (b_next b) as [|x t]; cbn [length Nat.eqb andE andb]; [|reflexivity].
  destruct (f_is_retsub f b); cbn [negb andE andb]; reflexivity.
Qed.

(* ====================================================================== *)
(* 4. _calculate_reachin / _calculate_livein, for every domain             *)
(* ====================================================================== *)
Section Domain.
  Variable T : Type.
  Variable univ null : T.
  Variable union inter : T -> T -> T.
  Variable single : instr -> nat -> list sval -> T * T.
  Variable f : func.

  Notation state := (Analysis.state T).
  Notation reachin := (Analysis.reachin T univ null union inter single f).
  Notation livein := (Analysis.livein T null union inter f).
  Notation reachin_gen := (calculate_reachin_gen T univ null union inter single f).
  Notation livein_gen := (calculate_livein_gen T univ null union inter f).

  Theorem calculate_reachin_gen_eq : forall n b (st : state),
    fblock f n = Some b -> reachin_gen n st = reachin st b.
  Proof.
    intros n b st Hb. pose proof (fblock_idx _ _ _ Hb) as Hi. subst n.
    unfold calculate_reachin_gen, Analysis.reachin, self_entry_block.
    rewrite (prev_blocks_global_gen_eq f (b_idx b) b Hb).
    destruct (Nat.eqb (b_idx b) (fn_entry f));
      (destruct (prev_global f b) as [ps|]; [|reflexivity]; cbn [bind obind];
       rewrite (fold_left_ext _
         (fun acc p => obind acc (fun a => obind (lookup T st p) (fun ro => obind (fblock f p) (fun pb =>
            obind (edge_constraint T univ null union inter single f pb (b_idx b)) (fun ec => Some (union a (inter ro ec))))))));
       [ unfold ret;
         match goal with |- bind ?F _ = obind ?F _ => destruct F as [acc|]; [|reflexivity] end;
         cbn [bind obind]; unfold attr_is_sub_return_point, attr_callsub_block, dict_get; rewrite Hb;
         cbn [option_map ifE bind];
         destruct (is_sub_return_point f b); cbn [ifE]; [|reflexivity];
         destruct (callsub_block_of f b) as [c|]; [|reflexivity]; cbn [bind obind];
         destruct (lookup T st c); reflexivity
       | intros [a|] p; [|reflexivity]; cbn [bind obind];
         unfold dict_get, path_get, self_path_contexts;
         destruct (lookup T st p); [|reflexivity]; cbn [bind obind];
         destruct (fblock f p) as [pb|]; [|reflexivity]; cbn [bind obind];
         destruct (edge_constraint T univ null union inter single f pb (b_idx b)); reflexivity ]).
  Qed.

  Theorem calculate_livein_gen_eq : forall n b (st : state),
    main_name_fresh f -> fblock f n = Some b -> livein_gen n st = livein st b.
  Proof.
    intros n b st Hmain Hb.
    unfold calculate_livein_gen, Analysis.livein.
    rewrite (next_blocks_global_gen_eq f n b Hmain Hb).
    destruct (next_global f b) as [nx|]; [|reflexivity]. cbn [bind obind].
    rewrite (fold_left_ext _
      (fun acc s => obind acc (fun a => obind (lookup T st s) (fun lo => Some (union a lo))))).
    2:{ intros [a|] s; [|reflexivity]. cbn [bind obind]. unfold dict_get.
        destruct (lookup T st s); reflexivity. }
    unfold ret.
    match goal with |- bind ?F _ = obind ?F _ => destruct F as [acc|]; [|reflexivity] end.
    cbn [bind obind].
    unfold attr_is_callsub_block, attr_sub_return_point, attr_called_subroutine, attr_retsub_blocks, as_key, dict_get.
    rewrite Hb. cbn [option_map bind].
    unfold f_is_callsub. destruct (fexit_op f b) as [op|]; [|reflexivity].
    destruct op; try reflexivity.
    cbn [andE]. destruct (sub_return_point b) as [rp|]; cbn [opt_is_some ret bind andE ifE]; [|reflexivity].
    destruct (f_find_sub f l) as [s|] eqn:Hs; [|reflexivity]. cbn [bind obind]. rewrite Hs. cbn [option_map bind].
    destruct (sub_retsub_blocks f s) as [|r rs]; cbn [length Nat.eqb negb ifE]; [reflexivity|].
    destruct (lookup T st rp); reflexivity.
  Qed.
End Domain.

(* ====================================================================== *)
(* 5. The same for `In b (fn_blocks f)` when the block ids are pairwise distinct *)
(* ====================================================================== *)
Corollary graph_gen_eq_In : forall f b,
  NoDup (ids f) -> In b (fn_blocks f) ->
  prev_blocks_global_gen f (b_idx b) = prev_global f b /\
  leaf_block_global_gen f (b_idx b) = Some (leaf_global f b) /\
  (main_name_fresh f -> next_blocks_global_gen f (b_idx b) = next_global f b).
Proof.
  intros f b Hnd Hin. pose proof (fblock_of_In f b Hnd Hin) as Hb.
  split; [apply prev_blocks_global_gen_eq; exact Hb|].
  split; [apply leaf_block_global_gen_eq; exact Hb|].
  intros Hm. apply next_blocks_global_gen_eq; assumption.
Qed.

Corollary solver_gen_eq_In : forall T univ null union inter single f b (st : Analysis.state T),
  NoDup (ids f) -> In b (fn_blocks f) ->
  calculate_reachin_gen T univ null union inter single f (b_idx b) st = reachin T univ null union inter single f st b /\
  (main_name_fresh f -> calculate_livein_gen T univ null union inter f (b_idx b) st = livein T null union inter f st b).
Proof.
  intros T univ null union inter single f b st Hnd Hin. pose proof (fblock_of_In f b Hnd Hin) as Hb.
  split; [apply calculate_reachin_gen_eq; exact Hb|].
  intros Hm. apply calculate_livein_gen_eq; assumption.
Qed.

(* ====================================================================== *)
(* 6. No Python exception on defined graphs                                *)
(* ====================================================================== *)
(* Under the executable definedness check TotalSolver.defined_okb (every lookup of the two passes is defined) the
   translated functions raise no exception on the blocks of f, and what they return are blocks of f; for the two
   neighbourhood functions: on every state that has a value for every block (TotalSolver.covers; the solvers
   initialise such states), with SolverLemmas.cover_prev_P for the forward one (the edge p -> b has a constraint). *)
Corollary graph_gen_no_exception : forall f n b,
  defined_okb f = true -> main_name_fresh f -> fblock f n = Some b ->
  (exists nx, next_blocks_global_gen f n = Some nx /\ forall x, In x nx -> In x (ids f)) /\
  (exists ps, prev_blocks_global_gen f n = Some ps /\ forall x, In x ps -> In x (ids f)) /\
  (exists lf, leaf_block_global_gen f n = Some lf).
Proof.
  intros f n b Hdef Hm Hb. pose proof (fblock_In _ _ _ Hb) as Hin.
  rewrite (next_blocks_global_gen_eq f n b Hm Hb), (prev_blocks_global_gen_eq f n b Hb),
    (leaf_block_global_gen_eq f n b Hb).
  destruct (def_next f Hdef b Hin) as [nx [Hnx Hx]]. destruct (def_prev f Hdef b Hin) as [ps [Hps Hp]].
  split; [|split].
  - exists nx. split; [exact Hnx|]. intros x Hi. apply Hx. apply in_or_app. left. exact Hi.
  - exists ps. split; [exact Hps|exact Hp].
  - eauto.
Qed.

Corollary solver_gen_no_exception : forall T univ null union inter single f n b (st : Analysis.state T),
  defined_okb f = true -> cover_prev_P f -> main_name_fresh f -> fblock f n = Some b -> covers T f st ->
  (exists ri, calculate_reachin_gen T univ null union inter single f n st = Some ri) /\
  (exists li, calculate_livein_gen T univ null union inter f n st = Some li).
Proof.
  intros T univ null union inter single f n b st Hdef Hcp Hm Hb Hc.
  rewrite (calculate_reachin_gen_eq T univ null union inter single f n b st Hb),
    (calculate_livein_gen_eq T univ null union inter f n b st Hm Hb).
  split.
  - exact (reachin_defined T univ null union inter single f Hdef Hcp st n b Hb Hc).
  - exact (livein_defined T null union inter f Hdef st n b Hb Hc).
Qed.

Print Assumptions next_blocks_global_gen_eq.
Print Assumptions next_blocks_global_gen_eq_refuted.
Print Assumptions prev_blocks_global_gen_eq.
Print Assumptions leaf_block_global_gen_eq.
Print Assumptions calculate_reachin_gen_eq.
Print Assumptions calculate_livein_gen_eq.
Print Assumptions graph_gen_eq_In.
Print Assumptions solver_gen_eq_In.
Print Assumptions graph_gen_no_exception.
Print Assumptions solver_gen_no_exception.
