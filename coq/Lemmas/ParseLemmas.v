(* Lemmas about the line parser model (Model/Parse.v) over the *generated* rule / class / field tables
   (Gen/Tables.v).  Finite side conditions are discharged by vm_compute on the generated tables, so a change of
   the analyzer's tables that breaks a statement makes this file fail to compile.

   PART 1  dispatch (first_rule) : no opcode is taken for another one sharing a prefix
   PART 2  integer literals      : decimal / hex / octal printers parse back
   PART 3  round trip            : str_of_instr then parse_line, fragment instructions and whole table
   PART 4  whitespace / comments : parse_line is invariant *)
From Coq Require Import String List NArith ZArith Bool Ascii Lia Arith.
From Tealer Require Import Tables Syntax Parse.
Import ListNotations.
Open Scope string_scope.

(* ====================================================================== *)
(* Generic string facts                                                     *)
(* ====================================================================== *)
Lemma prefix_nil : forall r, String.prefix "" r = true.
Proof. destruct r; reflexivity. Qed.

Lemma prefix_refl : forall a, String.prefix a a = true.
Proof. induction a as [|c a IH]; simpl; [reflexivity|]. destruct (ascii_dec c c); [exact IH|congruence]. Qed.

Lemma prefix_app : forall a r, String.prefix a (a ++ r) = true.
Proof. induction a as [|c a IH]; intros r; simpl; [apply prefix_nil|]. destruct (ascii_dec c c); [apply IH|congruence]. Qed.

Lemma prefix_app_l : forall a b r, String.prefix a b = true -> String.prefix a (b ++ r) = true.
Proof.
  induction a as [|c a IH]; intros b r H; [apply prefix_nil|].
  destruct b as [|d b]; simpl in *; [discriminate|].
  destruct (ascii_dec c d); [apply IH; exact H|discriminate].
Qed.

(* the key string lemma of PART 1 *)
Lemma prefix_app_cases : forall a b r,
  String.prefix a (b ++ r) = true -> String.prefix a b = true \/ String.prefix b a = true.
Proof.
  induction a as [|c a IH]; intros b r H; [left; apply prefix_nil|].
  destruct b as [|d b]; [right; reflexivity|].
  simpl in *. destruct (ascii_dec c d) as [e|ne]; [|discriminate].
  subst d. destruct (ascii_dec c c); [|congruence]. eapply IH; eassumption.
Qed.

Lemma prefix_app_inv : forall k a r, String.prefix (k ++ a) (k ++ r) = String.prefix a r.
Proof. induction k as [|c k IH]; intros a r; simpl; [reflexivity|]. destruct (ascii_dec c c); [apply IH|congruence]. Qed.

Lemma prefix_drop : forall a b, String.prefix a b = true -> b = a ++ drop (String.length a) b.
Proof.
  induction a as [|c a IH]; intros b H; [reflexivity|].
  destruct b as [|d b]; simpl in *; [discriminate|].
  destruct (ascii_dec c d); [|discriminate]. subst. f_equal. apply IH. exact H.
Qed.

Lemma drop_app : forall a b, drop (String.length a) (a ++ b) = b.
Proof. induction a; intros; simpl; auto. Qed.

(* ====================================================================== *)
(* PART 1 : dispatch                                                        *)
(* ====================================================================== *)
Definition rules_t := list (string * (string * shape)).

Fixpoint rule_index_in (key : string) (rules : rules_t) : option nat :=
  match rules with
  | [] => None
  | (k, _) :: t => if k =? key then Some 0 else option_map S (rule_index_in key t)
  end.
(* position of the first rule with that key *)
Definition rule_index (key : string) : option nat := rule_index_in key parser_rules.

(* [blockers key rules] scans the rules in dispatch order up to the rule whose key is [key]:
   None      if an earlier key is a prefix of [key] (then [key] alone would be taken for that opcode), or [key] is absent;
   Some bl   otherwise, where bl lists the suffixes s such that key ++ s is an EARLIER key:
             key ++ rest is dispatched to the rule of [key] exactly when no s in bl is a prefix of rest. *)
Fixpoint blockers (key : string) (rules : rules_t) : option (list string) :=
  match rules with
  | [] => None
  | (k, _) :: t =>
      if starts_with k key then (if k =? key then Some [] else None)
      else if starts_with key k then option_map (cons (drop (String.length key) k)) (blockers key t)
      else blockers key t
  end.

Lemma blockers_sound : forall key rules bl,
  blockers key rules = Some bl ->
  (exists c s, first_rule key rules = Some (key, c, s)) /\
  forall rest, forallb (fun s => negb (starts_with s rest)) bl = true ->
               first_rule (key ++ rest) rules = first_rule key rules.
Proof.
  intros key rules. induction rules as [|[k [c s]] t IH]; intros bl H; simpl in H; [discriminate|].
  simpl. destruct (starts_with k key) eqn:Ek.
  - destruct (k =? key) eqn:Eq; [|discriminate]. apply String.eqb_eq in Eq. subst k. split.
    + eauto.
    + intros rest _. unfold starts_with. rewrite prefix_app. reflexivity.
  - destruct (starts_with key k) eqn:Ek2.
    + destruct (blockers key t) as [bl'|] eqn:Eb; [|discriminate]. simpl in H. inversion H; subst bl; clear H.
      destruct (IH _ eq_refl) as [Hex Hall]. split; [exact Hex|].
      intros rest Hr. simpl in Hr. apply andb_true_iff in Hr. destruct Hr as [Hr1 Hr2].
      assert (starts_with k (key ++ rest) = false) as ->.
      { unfold starts_with in *. rewrite (prefix_drop _ _ Ek2) at 1. rewrite prefix_app_inv.
        apply negb_true_iff in Hr1. exact Hr1. }
      apply Hall. exact Hr2.
    + destruct (IH _ H) as [Hex Hall]. split; [exact Hex|]. intros rest Hr.
      assert (starts_with k (key ++ rest) = false) as ->.
      { unfold starts_with in *. destruct (String.prefix k (key ++ rest)) eqn:E; [|reflexivity].
        apply prefix_app_cases in E. destruct E; congruence. }
      apply Hall. exact Hr.
Qed.

(* first_rule returns the rule at rule_index, and every earlier key is not a prefix of the line *)
Lemma first_rule_index : forall key c s rules,
  first_rule key rules = Some (key, c, s) ->
  exists i, rule_index_in key rules = Some i /\ nth_error rules i = Some (key, (c, s)) /\
            forall j kj rj, j < i -> nth_error rules j = Some (kj, rj) -> starts_with kj key = false.
Proof.
  intros key c s rules. induction rules as [|[k [c' s']] t IH]; intros H; simpl in H; [discriminate|].
  simpl. destruct (starts_with k key) eqn:Ek.
  - inversion H; subst. rewrite String.eqb_refl. exists 0. repeat split; auto. intros; lia.
  - assert (k =? key = false) as ->.
    { destruct (k =? key) eqn:E; [|reflexivity]. apply String.eqb_eq in E. subst.
      unfold starts_with in Ek. rewrite prefix_refl in Ek. discriminate. }
    destruct (IH H) as [i [Hi [Hn Hlt]]]. exists (S i). rewrite Hi. repeat split; auto.
    intros j kj rj Hj Hnj. destruct j; simpl in Hnj.
    + inversion Hnj; subst. exact Ek.
    + eapply Hlt; [|eassumption]. lia.
Qed.

(* membership by computation: look the key up, compare the rule *)
Lemma In_by_index : forall (rules : rules_t) r,
  match rule_index_in (fst r) rules with Some i => nth_error rules i | None => None end = Some r -> In r rules.
Proof.
  intros rules r H. destruct (rule_index_in (fst r) rules) as [i|]; [|discriminate]. eapply nth_error_In; eauto.
Qed.

(* decidable equality on rules, for the table-wide boolean checks *)
Definition shape_eq_dec : forall a b : shape, {a = b} + {a <> b}.
Proof. decide equality. Defined.
Definition rule_eqb (a b : string * string * shape) : bool :=
  let '(k, c, s) := a in let '(k', c', s') := b in
  (k =? k') && (c =? c') && (if shape_eq_dec s s' then true else false).
Lemma rule_eqb_eq : forall a b, rule_eqb a b = true -> a = b.
Proof.
  intros [[k c] s] [[k' c'] s'] H. unfold rule_eqb in H.
  apply andb_true_iff in H. destruct H as [H H3]. apply andb_true_iff in H. destruct H as [H1 H2].
  apply String.eqb_eq in H1. apply String.eqb_eq in H2. destruct (shape_eq_dec s s'); [|discriminate]. congruence.
Qed.
Definition is_snone (s : shape) : bool := match s with SNone => true | _ => false end.

(* --- duplicate-freeness of the keys *)
Fixpoint nodupb (l : list string) : bool :=
  match l with [] => true | x :: t => negb (existsb (String.eqb x) t) && nodupb t end.
Lemma nodupb_NoDup : forall l, nodupb l = true -> NoDup l.
Proof.
  induction l as [|x t IH]; intros H; [constructor|]. simpl in H. apply andb_true_iff in H. destruct H as [H1 H2].
  constructor; [|auto]. intros Hin. apply negb_true_iff in H1.
  assert (existsb (String.eqb x) t = true); [|congruence].
  apply existsb_exists. exists x. split; [exact Hin|apply String.eqb_refl].
Qed.

Theorem parser_keys_nodup : NoDup (map fst parser_rules).
Proof. apply nodupb_NoDup. vm_compute. reflexivity. Qed.

(* a key determines its rule *)
Lemma nodup_keys_functional : forall (rules : rules_t) k v v',
  NoDup (map fst rules) -> In (k, v) rules -> In (k, v') rules -> v = v'.
Proof.
  induction rules as [|[k0 v0] t IH]; intros k v v' Hnd H1 H2; [contradiction|].
  simpl in Hnd. inversion Hnd as [|? ? Hnotin Hnd']; subst.
  destruct H1 as [H1|H1]; destruct H2 as [H2|H2].
  - congruence.
  - inversion H1; subst. exfalso. apply Hnotin. apply in_map_iff. exists (k, v'). auto.
  - inversion H2; subst. exfalso. apply Hnotin. apply in_map_iff. exists (k, v). auto.
  - eapply IH; eauto.
Qed.
Theorem parser_key_functional : forall k v v', In (k, v) parser_rules -> In (k, v') parser_rules -> v = v'.
Proof. intros. eapply nodup_keys_functional; eauto using parser_keys_nodup. Qed.

(* --- no earlier key is a prefix of a later key (this is what makes the ordered prefix list a correct dispatcher) *)
Fixpoint no_earlier_prefix (l : list string) : bool :=
  match l with [] => true | k :: t => forallb (fun k' => negb (String.prefix k k')) t && no_earlier_prefix t end.
Lemma no_earlier_prefix_spec : forall l, no_earlier_prefix l = true ->
  forall i j a b, i < j -> nth_error l i = Some a -> nth_error l j = Some b -> String.prefix a b = false.
Proof.
  induction l as [|k t IH]; intros H i j a b Hij Ha Hb; [destruct i; discriminate|].
  simpl in H. apply andb_true_iff in H. destruct H as [H1 H2].
  destruct j; [lia|]. simpl in Hb. destruct i; simpl in Ha.
  - inversion Ha; subst. rewrite forallb_forall in H1. apply negb_true_iff. apply H1. eapply nth_error_In; eauto.
  - apply (IH H2 i j a b); [lia|exact Ha|exact Hb].
Qed.
Theorem parser_no_earlier_prefix : forall i j a b, i < j ->
  nth_error (map fst parser_rules) i = Some a -> nth_error (map fst parser_rules) j = Some b ->
  String.prefix a b = false.
Proof. apply no_earlier_prefix_spec. vm_compute. reflexivity. Qed.

(* --- (a) : the key itself selects its own rule -- holds for EVERY rule of the table (all shapes).
   The checks are stated over an arbitrary rule list and instantiated with the generated table at the end
   (so that no proof step ever unfolds the table). *)
Definition check_a (rules : rules_t) (r : string * (string * shape)) : bool :=
  match first_rule (fst r) rules with
  | Some x => rule_eqb x (fst r, fst (snd r), snd (snd r))
  | None => false
  end.

Lemma dispatch_key_gen : forall rules, forallb (check_a rules) rules = true ->
  forall key cls sh, In (key, (cls, sh)) rules -> first_rule key rules = Some (key, cls, sh).
Proof.
  intros rules H key cls sh Hin. rewrite forallb_forall in H. specialize (H _ Hin).
  unfold check_a in H. cbn [fst snd] in H. destruct (first_rule key rules) as [x|]; [|discriminate].
  apply rule_eqb_eq in H. congruence.
Qed.

Lemma check_a_all : forallb (check_a parser_rules) parser_rules = true.
Proof. vm_compute. reflexivity. Qed.

Theorem dispatch_key : forall key cls sh,
  In (key, (cls, sh)) parser_rules -> first_rule key parser_rules = Some (key, cls, sh).
Proof. exact (dispatch_key_gen parser_rules check_a_all). Qed.

(* (a) as asked: the bare mnemonic selects its own rule *)
Theorem dispatch_bare : forall key cls,
  In (key, (cls, SNone)) parser_rules -> first_rule key parser_rules = Some (key, cls, SNone).
Proof. intros. apply dispatch_key. assumption. Qed.

Theorem dispatch_key_index : forall key cls sh,
  In (key, (cls, sh)) parser_rules ->
  exists i, rule_index key = Some i /\ nth_error parser_rules i = Some (key, (cls, sh)) /\
            forall j kj rj, j < i -> nth_error parser_rules j = Some (kj, rj) -> starts_with kj key = false.
Proof. intros. apply first_rule_index. apply dispatch_key. assumption. Qed.

(* --- (b) : key ++ rest selects the rule of key, for every rest *)
(* rules with immediates whose key is a proper prefix of an earlier key: exactly one in the current table *)
Definition dispatch_exceptions : list string := ["replace"].

Definition no_blockers (rules : rules_t) (key : string) : bool :=
  match blockers key rules with Some [] => true | _ => false end.

Lemma blockers_table :
  map (fun r => (fst r, blockers (fst r) parser_rules))
      (filter (fun r => negb (is_snone (snd (snd r))) && negb (no_blockers parser_rules (fst r))) parser_rules)
  = [("replace", Some ["2 "; "3"])].
Proof. vm_compute. reflexivity. Qed.

Definition check_b (rules : rules_t) (exc : list string) (r : string * (string * shape)) : bool :=
  is_snone (snd (snd r)) || existsb (String.eqb (fst r)) exc || no_blockers rules (fst r).

Lemma dispatch_partial_gen : forall rules exc,
  forallb (check_a rules) rules = true -> forallb (check_b rules exc) rules = true ->
  forall key cls sh, In (key, (cls, sh)) rules -> sh <> SNone -> ~ In key exc ->
  forall rest, first_rule (key ++ rest) rules = Some (key, cls, sh).
Proof.
  intros rules exc Ha H key cls sh Hin Hsh Hex rest.
  rewrite forallb_forall in H. specialize (H _ Hin). unfold check_b in H. cbn [fst snd] in H.
  assert (E1 : is_snone sh = false) by (destruct sh; try reflexivity; congruence).
  assert (E2 : existsb (String.eqb key) exc = false).
  { destruct (existsb (String.eqb key) exc) eqn:Ee; [|reflexivity].
    exfalso. apply Hex. apply existsb_exists in Ee. destruct Ee as [x [Hx He]].
    apply String.eqb_eq in He. subst. exact Hx. }
  rewrite E1, E2 in H. cbn [orb] in H. unfold no_blockers in H.
  destruct (blockers key rules) as [[|? ?]|] eqn:Eb; try discriminate.
  destruct (blockers_sound _ _ _ Eb) as [_ Hall]. rewrite Hall by reflexivity.
  apply dispatch_key_gen; assumption.
Qed.

Lemma check_b_all : forallb (check_b parser_rules dispatch_exceptions) parser_rules = true.
Proof. vm_compute. reflexivity. Qed.

Theorem dispatch_partial : forall key cls sh,
  In (key, (cls, sh)) parser_rules -> sh <> SNone -> ~ In key dispatch_exceptions ->
  forall rest, first_rule (key ++ rest) parser_rules = Some (key, cls, sh).
Proof. exact (dispatch_partial_gen parser_rules dispatch_exceptions check_a_all check_b_all). Qed.

(* the exception, exactly: "replace" ++ rest is Replace unless rest starts with "2 " or "3" *)
Theorem dispatch_replace : forall rest,
  starts_with "2 " rest = false -> starts_with "3" rest = false ->
  first_rule ("replace" ++ rest) parser_rules = Some ("replace", "Replace", SOptInt).
Proof.
  intros rest H1 H2.
  assert (Eb : blockers "replace" parser_rules = Some ["2 "; "3"]) by (vm_compute; reflexivity).
  destruct (blockers_sound _ _ _ Eb) as [_ Hall]. rewrite Hall.
  - vm_compute. reflexivity.
  - simpl. rewrite H1, H2. reflexivity.
Qed.

(* finding: (b) fails for the rule ("replace", Replace, SOptInt): its key is a proper prefix of the earlier keys
   "replace2 " and "replace3" *)
Theorem dispatch_refuted :
  In ("replace", ("Replace", SOptInt)) parser_rules /\
  first_rule ("replace" ++ "2 5") parser_rules = Some ("replace2 ", "Replace2", SInt) /\
  first_rule ("replace" ++ "3") parser_rules = Some ("replace3", "Replace3", SNone).
Proof.
  split; [|split]; [|vm_compute; reflexivity|vm_compute; reflexivity].
  apply In_by_index. vm_compute. reflexivity.
Qed.

(* general form, for every rule (all shapes): the exact set of continuations that are taken for another opcode *)
Definition has_blockers (rules : rules_t) (r : string * (string * shape)) : bool :=
  match blockers (fst r) rules with Some _ => true | None => false end.
Lemma dispatch_general_gen : forall rules,
  forallb (check_a rules) rules = true -> forallb (has_blockers rules) rules = true ->
  forall key cls sh, In (key, (cls, sh)) rules ->
  exists bl, blockers key rules = Some bl /\
    forall rest, forallb (fun s => negb (starts_with s rest)) bl = true ->
                 first_rule (key ++ rest) rules = Some (key, cls, sh).
Proof.
  intros rules Ha H key cls sh Hin.
  rewrite forallb_forall in H. specialize (H _ Hin). unfold has_blockers in H. cbn [fst snd] in H.
  destruct (blockers key rules) as [bl|] eqn:Eb; [|discriminate].
  exists bl. split; [reflexivity|]. intros rest Hr.
  destruct (blockers_sound _ _ _ Eb) as [_ Hall]. rewrite Hall by exact Hr. apply dispatch_key_gen; assumption.
Qed.
Theorem dispatch_general : forall key cls sh,
  In (key, (cls, sh)) parser_rules ->
  exists bl, blockers key parser_rules = Some bl /\
    forall rest, forallb (fun s => negb (starts_with s rest)) bl = true ->
                 first_rule (key ++ rest) parser_rules = Some (key, cls, sh).
Proof.
  apply dispatch_general_gen; [exact check_a_all|]. vm_compute. reflexivity.
Qed.

(* ====================================================================== *)
(* PART 2 : integer literals                                                *)
(* ====================================================================== *)
Open Scope N_scope.

(* most significant digit first; same scheme (and same fuel) as Syntax.digits_of_pos, any base up to 16 *)
Fixpoint base_digits (b : N) (fuel : nat) (n : N) (acc : string) : string :=
  match fuel with
  | O => acc
  | S f =>
      let acc' := String (hex_digit (n mod b)) acc in
      if n <? b then acc' else base_digits b f (n / b) acc'
  end.
Definition digits_fuel (n : N) : nat := S (N.to_nat (N.log2 n)).
Definition hex_of_N (n : N) : string := base_digits 16 (digits_fuel n) n "".
Definition oct_of_N (n : N) : string := base_digits 8 (digits_fuel n) n "".

Lemma small_cases16 : forall d, d < 16 ->
  d = 0 \/ d = 1 \/ d = 2 \/ d = 3 \/ d = 4 \/ d = 5 \/ d = 6 \/ d = 7 \/ d = 8 \/ d = 9 \/
  d = 10 \/ d = 11 \/ d = 12 \/ d = 13 \/ d = 14 \/ d = 15.
Proof. intros; lia. Qed.

Lemma digit_val_hex_digit : forall d, d < 16 -> digit_val (hex_digit d) = Some d.
Proof.
  intros d H. apply small_cases16 in H.
  repeat (destruct H as [H|H]; [subst; reflexivity|]). subst; reflexivity.
Qed.

Lemma hex_digit_dec : forall d, d < 10 -> hex_digit d = ascii_of_N (48 + d).
Proof. intros d H. unfold hex_digit. apply N.ltb_lt in H. rewrite H. reflexivity. Qed.

Lemma digits_of_pos_base : forall fuel n acc, digits_of_pos fuel n acc = base_digits 10 fuel n acc.
Proof.
  induction fuel as [|f IH]; intros n acc; [reflexivity|].
  cbn [digits_of_pos base_digits]. rewrite hex_digit_dec by (apply N.mod_lt; lia).
  rewrite IH. reflexivity.
Qed.
Lemma string_of_N_base : forall n, string_of_N n = base_digits 10 (digits_fuel n) n "".
Proof. intros. unfold string_of_N. apply digits_of_pos_base. Qed.

Lemma base_digits_S : forall b f n acc,
  base_digits b (S f) n acc =
  if n <? b then String (hex_digit (n mod b)) acc else base_digits b f (n / b) (String (hex_digit (n mod b)) acc).
Proof. reflexivity. Qed.

(* the generic lemma: parsing the printed digits in front of [acc] *)
Lemma base_digits_parse : forall b, 1 < b -> b <= 16 ->
  forall fuel n acc P v, n < b ^ N.of_nat fuel ->
  (forall a, parse_base_acc b acc a = Some (a * P + v)) ->
  exists P', forall a, parse_base_acc b (base_digits b fuel n acc) a = Some (a * P' + (n * P + v)).
Proof.
  intros b Hb1 Hb2. induction fuel as [|f IH]; intros n acc P v Hn Hacc.
  - simpl in Hn. assert (n = 0) by lia. subst. exists P. intros a. simpl. rewrite Hacc. f_equal.
  - rewrite base_digits_S.
    assert (Hd : n mod b < b) by (apply N.mod_lt; lia).
    assert (Hstep : forall a, parse_base_acc b (String (hex_digit (n mod b)) acc) a
                              = Some (a * (b * P) + (n mod b * P + v))).
    { intros a. cbn [parse_base_acc]. rewrite digit_val_hex_digit by lia.
      apply N.ltb_lt in Hd. rewrite Hd. rewrite Hacc. f_equal. ring. }
    destruct (n <? b) eqn:Enb.
    + apply N.ltb_lt in Enb. exists (b * P). intros a. rewrite Hstep. rewrite N.mod_small by exact Enb. reflexivity.
    + apply N.ltb_ge in Enb.
      assert (Hq : n / b < b ^ N.of_nat f).
      { apply N.div_lt_upper_bound; [lia|]. rewrite Nat2N.inj_succ, N.pow_succ_r' in Hn. exact Hn. }
      destruct (IH (n / b) _ _ _ Hq Hstep) as [P' HP']. exists P'. intros a. rewrite HP'. f_equal. f_equal.
      pose proof (N.div_mod n b ltac:(lia)) as E.
      set (q := n / b) in *. set (d := n mod b) in *. clearbody q d. rewrite E. ring.
Qed.

Lemma digits_fuel_enough : forall b n, 2 <= b -> n < b ^ N.of_nat (digits_fuel n).
Proof.
  intros b n Hb. unfold digits_fuel. rewrite Nat2N.inj_succ, N2Nat.id.
  destruct (N.eq_dec n 0) as [->|Hn].
  - change (N.succ (N.log2 0)) with 1. rewrite N.pow_1_r. lia.
  - destruct (N.log2_spec n ltac:(lia)) as [_ H2].
    eapply N.lt_le_trans; [exact H2|]. apply N.pow_le_mono_l. exact Hb.
Qed.

Lemma base_digits_value : forall b n, 1 < b -> b <= 16 ->
  parse_base_acc b (base_digits b (digits_fuel n) n "") 0 = Some n.
Proof.
  intros b n H1 H2.
  destruct (base_digits_parse b H1 H2 (digits_fuel n) n "" 1 0) as [P' HP'].
  - apply digits_fuel_enough. lia.
  - intros a. simpl. f_equal. lia.
  - rewrite HP'. f_equal. lia.
Qed.

(* first character: a digit < b, non-zero for n > 0 (no leading zeros) *)
Lemma base_digits_head : forall b, 1 < b ->
  forall fuel n acc, n < b ^ N.of_nat (S fuel) ->
  exists d t, base_digits b (S fuel) n acc = String (hex_digit d) t /\ d < b /\ (0 < n -> 0 < d).
Proof.
  intros b Hb. induction fuel as [|f IH]; intros n acc Hn.
  - rewrite base_digits_S. change (N.of_nat 1) with 1 in Hn. rewrite N.pow_1_r in Hn.
    exists (n mod b), acc. rewrite N.mod_small by exact Hn. split; [|split; [exact Hn|auto]].
    destruct (n <? b); reflexivity.
  - rewrite base_digits_S. destruct (n <? b) eqn:Enb.
    + apply N.ltb_lt in Enb. exists (n mod b), acc. rewrite N.mod_small by exact Enb. auto.
    + apply N.ltb_ge in Enb.
      assert (Hq : n / b < b ^ N.of_nat (S f)).
      { apply N.div_lt_upper_bound; [lia|]. rewrite Nat2N.inj_succ, N.pow_succ_r' in Hn. exact Hn. }
      destruct (IH (n / b) (String (hex_digit (n mod b)) acc) Hq) as [d [t [E [Hd Hpos]]]].
      exists d, t. split; [exact E|]. split; [exact Hd|]. intros _. apply Hpos.
      apply N.div_str_pos. lia.
Qed.

Lemma base_digits_head_fuel : forall b n, 1 < b ->
  exists d t, base_digits b (digits_fuel n) n "" = String (hex_digit d) t /\ d < b /\ (0 < n -> 0 < d).
Proof. intros b n Hb. unfold digits_fuel. apply base_digits_head; [exact Hb|]. apply (digits_fuel_enough b n). lia. Qed.

Lemma hex_digit_not_zero_char : forall d, 0 < d -> d < 16 -> hex_digit d <> "0"%char.
Proof.
  intros d H0 H16 E. pose proof (digit_val_hex_digit d H16) as Hv. rewrite E in Hv.
  vm_compute in Hv. inversion Hv. lia.
Qed.
Lemma hex_digit_not_x : forall d, d < 16 -> hex_digit d <> "x"%char.
Proof.
  intros d H16 E. pose proof (digit_val_hex_digit d H16) as Hv. rewrite E in Hv. vm_compute in Hv. discriminate.
Qed.

(* --- decimal *)
Theorem parse_int_decimal : forall n, parse_int (string_of_N n) = Ok n.
Proof.
  intros n. rewrite string_of_N_base.
  destruct (N.eq_dec n 0) as [->|Hn]; [vm_compute; reflexivity|].
  pose proof (base_digits_value 10 n ltac:(lia) ltac:(lia)) as Hv.
  destruct (base_digits_head_fuel 10 n ltac:(lia)) as [d [t [E [Hd Hpos]]]].
  rewrite E in *. pose proof (hex_digit_not_zero_char d ltac:(lia) ltac:(lia)) as Hc.
  unfold parse_int, starts_with. cbn [String.prefix].
  destruct (ascii_dec "0" (hex_digit d)) as [e|_]; [congruence|].
  unfold parse_base. rewrite Hv. reflexivity.
Qed.

(* --- hexadecimal *)
Theorem parse_int_hex : forall n, parse_int ("0x" ++ hex_of_N n) = Ok n.
Proof.
  intros n. unfold hex_of_N.
  pose proof (base_digits_value 16 n ltac:(lia) ltac:(lia)) as Hv.
  destruct (base_digits_head_fuel 16 n ltac:(lia)) as [d [t [E _]]].
  rewrite E in *. unfold parse_int, starts_with. cbn [String.append String.prefix].
  destruct (ascii_dec "0" "0") as [_|ne]; [|congruence].
  destruct (ascii_dec "x" "x") as [_|ne]; [|congruence].
  cbn [drop]. unfold parse_base. rewrite Hv. reflexivity.
Qed.

(* --- octal (holds for 0 as well: "00") *)
Theorem parse_int_oct : forall n, parse_int ("0" ++ oct_of_N n) = Ok n.
Proof.
  intros n. unfold oct_of_N.
  pose proof (base_digits_value 8 n ltac:(lia) ltac:(lia)) as Hv.
  destruct (base_digits_head_fuel 8 n ltac:(lia)) as [d [t [E [Hd _]]]].
  rewrite E in *. pose proof (hex_digit_not_x d ltac:(lia)) as Hx.
  unfold parse_int, starts_with. cbn [String.append String.prefix].
  destruct (ascii_dec "0" "0") as [_|ne]; [|congruence].
  destruct (ascii_dec "x" (hex_digit d)) as [e|_]; [congruence|].
  unfold parse_base.
  change (parse_base_acc 8 (String "0" (String (hex_digit d) t)) 0)
    with (parse_base_acc 8 (String (hex_digit d) t) 0).
  rewrite Hv. reflexivity.
Qed.

(* the three spellings of one number parse to the same value *)
Theorem parse_int_spellings : forall n,
  parse_int (string_of_N n) = Ok n /\ parse_int ("0x" ++ hex_of_N n) = Ok n /\ parse_int ("0" ++ oct_of_N n) = Ok n.
Proof. intros; auto using parse_int_decimal, parse_int_hex, parse_int_oct. Qed.

(* --- is_int *)
Lemma dec_digit_char : forall d, d < 10 ->
  (Nat.leb 48 (nat_of_ascii (hex_digit d)) && Nat.leb (nat_of_ascii (hex_digit d)) 57)%bool = true.
Proof.
  intros d H. assert (H16 : d < 16) by lia. apply small_cases16 in H16.
  repeat (destruct H16 as [H16|H16]; [subst; try reflexivity; lia|]). lia.
Qed.
Lemma all_digits_base10 : forall fuel n acc, all_digits acc = true -> all_digits (base_digits 10 fuel n acc) = true.
Proof.
  induction fuel as [|f IH]; intros n acc H; [exact H|].
  rewrite base_digits_S.
  assert (H' : all_digits (String (hex_digit (n mod 10)) acc) = true).
  { cbn [all_digits]. rewrite H. rewrite (dec_digit_char (n mod 10)) by (apply N.mod_lt; lia). reflexivity. }
  destruct (n <? 10); [exact H'|]. apply IH. exact H'.
Qed.
Theorem is_int_string_of_N : forall n, is_int (string_of_N n) = true.
Proof.
  intros n. rewrite string_of_N_base.
  pose proof (all_digits_base10 (digits_fuel n) n "" eq_refl) as Ha.
  destruct (base_digits_head_fuel 10 n ltac:(lia)) as [d [t [E _]]]. rewrite E in *.
  unfold is_int. rewrite Ha. apply orb_true_r.
Qed.
Theorem is_int_hex : forall n, is_int ("0x" ++ hex_of_N n) = true.
Proof.
  intros n. unfold is_int, starts_with. cbn [String.append String.prefix].
  destruct (ascii_dec "0" "0") as [_|ne]; [|congruence].
  destruct (ascii_dec "x" "x") as [_|ne]; [|congruence]. rewrite prefix_nil. reflexivity.
Qed.
Close Scope N_scope.

(* ====================================================================== *)
(* String helpers: append, reverse, strip                                   *)
(* ====================================================================== *)
Lemma sapp_assoc : forall a b c : string, (a ++ b) ++ c = a ++ (b ++ c).
Proof. induction a; intros; simpl; [reflexivity|]. f_equal. auto. Qed.
Lemma sapp_nil_r : forall a : string, a ++ "" = a.
Proof. induction a; simpl; [reflexivity|]. f_equal. auto. Qed.
Lemma sapp_eq_nil : forall a b : string, a ++ b = "" -> a = "" /\ b = "".
Proof. destruct a; simpl; intros; [auto|discriminate]. Qed.

Lemma rev_acc_app : forall s acc, rev_string_acc s acc = rev_string s ++ acc.
Proof.
  unfold rev_string. induction s as [|c t IH]; intros acc; simpl; [reflexivity|].
  rewrite IH. rewrite (IH (String c "")). rewrite sapp_assoc. reflexivity.
Qed.
Lemma rev_string_cons : forall c t, rev_string (String c t) = rev_string t ++ String c "".
Proof. intros. unfold rev_string at 1. simpl. apply rev_acc_app. Qed.
Lemma rev_string_app : forall a b, rev_string (a ++ b) = rev_string b ++ rev_string a.
Proof.
  induction a as [|c t IH]; intros b; simpl.
  - rewrite sapp_nil_r. reflexivity.
  - rewrite !rev_string_cons. rewrite IH. apply sapp_assoc.
Qed.
Lemma rev_string_invol : forall s, rev_string (rev_string s) = s.
Proof.
  induction s as [|c t IH]; [reflexivity|]. rewrite rev_string_cons, rev_string_app. rewrite IH. reflexivity.
Qed.
Lemma rev_string_nil_inv : forall s, rev_string s = "" -> s = "".
Proof. intros s H. rewrite <- (rev_string_invol s), H. reflexivity. Qed.

Fixpoint all_space (s : string) : bool :=
  match s with EmptyString => true | String c t => is_space c && all_space t end.
Fixpoint no_space (s : string) : bool :=
  match s with EmptyString => true | String c t => negb (is_space c) && no_space t end.

(* structural characterisation of rstrip *)
Fixpoint rstrip' (s : string) : string :=
  match s with
  | EmptyString => EmptyString
  | String c t => match rstrip' t with
                  | EmptyString => if is_space c then EmptyString else String c EmptyString
                  | r => String c r
                  end
  end.

Lemma lstrip_snoc : forall x c,
  lstrip (x ++ String c "") =
  match lstrip x with "" => if is_space c then "" else String c "" | y => y ++ String c "" end.
Proof.
  induction x as [|d t IH]; intros c; simpl.
  - destruct (is_space c); reflexivity.
  - destruct (is_space d); [apply IH|reflexivity].
Qed.

Lemma rstrip_eq : forall s, rstrip s = rstrip' s.
Proof.
  unfold rstrip. induction s as [|c t IH]; [reflexivity|].
  rewrite rev_string_cons, lstrip_snoc. cbn [rstrip']. rewrite <- IH.
  destruct (lstrip (rev_string t)) as [|d y] eqn:E.
  - change (rev_string "") with "". destruct (is_space c); reflexivity.
  - cbv iota. rewrite rev_string_app. change (rev_string (String c "")) with (String c "").
    destruct (rev_string (String d y)) eqn:E2; [|reflexivity].
    apply rev_string_nil_inv in E2. discriminate.
Qed.
Lemma strip_eq : forall s, strip s = rstrip' (lstrip s).
Proof. intros. unfold strip. apply rstrip_eq. Qed.

Lemma lstrip_spaces_app : forall a b, all_space a = true -> lstrip (a ++ b) = lstrip b.
Proof.
  induction a as [|c t IH]; intros b H; [reflexivity|]. simpl in *.
  apply andb_true_iff in H. destruct H as [H1 H2]. rewrite H1. auto.
Qed.
Lemma lstrip_nonblank_app : forall a b, lstrip a <> "" -> lstrip (a ++ b) = lstrip a ++ b.
Proof.
  induction a as [|c t IH]; intros b H; [simpl in H; congruence|]. simpl in *.
  destruct (is_space c); [auto|reflexivity].
Qed.
Lemma lstrip_all_space : forall a, all_space a = true -> lstrip a = "".
Proof. intros a H. rewrite <- (sapp_nil_r a). rewrite lstrip_spaces_app by exact H. reflexivity. Qed.
Lemma lstrip_head : forall c t, is_space c = false -> lstrip (String c t) = String c t.
Proof. intros c t H. simpl. rewrite H. reflexivity. Qed.

Lemma rstrip'_all_space : forall b, all_space b = true -> rstrip' b = "".
Proof.
  induction b as [|c t IH]; intros H; [reflexivity|]. simpl in *.
  apply andb_true_iff in H. destruct H as [H1 H2]. rewrite IH by exact H2. rewrite H1. reflexivity.
Qed.
Lemma rstrip'_app_spaces : forall a b, all_space b = true -> rstrip' (a ++ b) = rstrip' a.
Proof.
  induction a as [|c t IH]; intros b H; simpl.
  - apply rstrip'_all_space. exact H.
  - rewrite IH by exact H. reflexivity.
Qed.
Lemma rstrip'_app_nonblank : forall a b, rstrip' b <> "" -> rstrip' (a ++ b) = a ++ rstrip' b.
Proof.
  induction a as [|c t IH]; intros b H; simpl; [reflexivity|].
  rewrite IH by exact H. destruct (t ++ rstrip' b) eqn:E; [|reflexivity].
  apply sapp_eq_nil in E. destruct E; congruence.
Qed.
Lemma rstrip'_no_space : forall w, no_space w = true -> rstrip' w = w.
Proof.
  induction w as [|c t IH]; intros H; [reflexivity|]. simpl in *.
  apply andb_true_iff in H. destruct H as [H1 H2]. rewrite IH by exact H2.
  apply negb_true_iff in H1. rewrite H1. destruct t; reflexivity.
Qed.
Lemma lstrip_no_space : forall w, no_space w = true -> lstrip w = w.
Proof.
  destruct w as [|c t]; intros H; [reflexivity|]. simpl in *.
  apply andb_true_iff in H. destruct H as [H1 _]. apply negb_true_iff in H1. rewrite H1. reflexivity.
Qed.
Lemma strip_no_space : forall w, no_space w = true -> strip w = w.
Proof. intros w H. rewrite strip_eq, lstrip_no_space by exact H. apply rstrip'_no_space. exact H. Qed.
Lemma rstrip'_decomp : forall s, exists sp, all_space sp = true /\ s = rstrip' s ++ sp.
Proof.
  induction s as [|c t [sp [Hsp E]]].
  - exists "". auto.
  - simpl. destruct (rstrip' t) as [|a r] eqn:Er.
    + destruct (is_space c) eqn:Ec.
      * exists (String c t). split; [|reflexivity]. simpl. rewrite Ec. simpl in E. rewrite E. exact Hsp.
      * exists sp. split; [exact Hsp|]. simpl. simpl in E. congruence.
    + exists sp. split; [exact Hsp|]. simpl. f_equal. exact E.
Qed.

(* strip ignores surrounding blanks *)
Lemma strip_lead_spaces : forall sp l, all_space sp = true -> strip (sp ++ l) = strip l.
Proof. intros. rewrite !strip_eq, lstrip_spaces_app by assumption. reflexivity. Qed.
Lemma strip_trail_spaces : forall l sp, all_space sp = true -> strip (l ++ sp) = strip l.
Proof.
  intros l sp H. rewrite !strip_eq. destruct (lstrip l) eqn:El.
  - assert (Hl : lstrip (l ++ sp) = "").
    { clear -El H. induction l as [|c t IH]; simpl in *.
      - apply lstrip_all_space. exact H.
      - destruct (is_space c); [auto|discriminate]. }
    rewrite Hl. reflexivity.
  - rewrite lstrip_nonblank_app by congruence. rewrite El. apply rstrip'_app_spaces. exact H.
Qed.

(* ====================================================================== *)
(* Tokenizer on quote-free, comment-free text                               *)
(* ====================================================================== *)
(* no quote character and no "//" anywhere *)
Fixpoint plain (s : string) : bool :=
  match s with
  | EmptyString => true
  | String c t => negb (Ascii.eqb c """"%char) && negb (starts_with "//" s) && plain t
  end.

(* fuel-free tokenizer for plain text *)
Fixpoint toks (s cur : string) : list string :=
  match s with
  | EmptyString => match cur with EmptyString => [] | _ => [strip (rev_string cur)] end
  | String c t =>
      if is_space c then
        match cur with EmptyString => toks t "" | _ => strip (rev_string cur) :: toks t "" end
      else toks t (String c cur)
  end.

Lemma plain_cons : forall c t, plain (String c t) = true ->
  Ascii.eqb c """"%char = false /\ starts_with "//" (String c t) = false /\ plain t = true.
Proof.
  intros c t H. cbn [plain] in H. apply andb_true_iff in H. destruct H as [H H3].
  apply andb_true_iff in H. destruct H as [H1 H2].
  apply negb_true_iff in H1. apply negb_true_iff in H2. auto.
Qed.

(* plain text contains no "//": the base64 test of the tokenizer (on [prev] / [cur]) is never consulted *)
Lemma tokenize_acc_plain : forall s fuel cur prev,
  String.length s < fuel -> plain s = true -> tokenize_acc fuel s cur prev = Ok (toks s cur).
Proof.
  induction s as [|c t IH]; intros fuel cur prev Hf Hp; (destruct fuel as [|f]; [simpl in Hf; lia|]).
  - cbn [tokenize_acc toks]. destruct cur; reflexivity.
  - apply plain_cons in Hp. destruct Hp as [Hq [Hc Hp]]. simpl in Hf.
    cbn [tokenize_acc toks]. destruct (is_space c).
    + destruct cur; cbv zeta; rewrite IH by (assumption || lia); reflexivity.
    + rewrite Hq, Hc. cbn [andb]. apply IH; [lia|assumption].
Qed.

Theorem tokenize_plain : forall line, plain (strip line) = true -> tokenize line = Ok (toks (strip line) "").
Proof. intros. unfold tokenize. apply tokenize_acc_plain; [lia|assumption]. Qed.

Lemma toks_word : forall w s cur, no_space w = true -> toks (w ++ s) cur = toks s (rev_string_acc w cur).
Proof.
  induction w as [|c t IH]; intros s cur H; [reflexivity|]. simpl in H.
  apply andb_true_iff in H. destruct H as [H1 H2]. apply negb_true_iff in H1.
  simpl. rewrite H1. apply IH. exact H2.
Qed.
Lemma toks_spaces : forall sp s, all_space sp = true -> toks (sp ++ s) "" = toks s "".
Proof.
  induction sp as [|c t IH]; intros s H; [reflexivity|]. simpl in H.
  apply andb_true_iff in H. destruct H as [H1 H2]. simpl. rewrite H1. auto.
Qed.
Lemma toks_trail_spaces : forall s sp cur, all_space sp = true -> toks (s ++ sp) cur = toks s cur.
Proof.
  induction s as [|c t IH]; intros sp cur H.
  - simpl. destruct sp as [|d sp]; [reflexivity|]. simpl in H. apply andb_true_iff in H. destruct H as [H1 H2].
    simpl. rewrite H1. rewrite <- (sapp_nil_r sp). rewrite toks_spaces by exact H2. simpl. destruct cur; reflexivity.
  - simpl. destruct (is_space c); [destruct cur; rewrite IH by exact H; reflexivity|]. apply IH. exact H.
Qed.

(* words *)
Definition word_ok (w : string) : bool := negb (w =? "") && no_space w && plain w.
Lemma word_ok_elim : forall w, word_ok w = true -> w <> "" /\ no_space w = true /\ plain w = true.
Proof.
  intros w H. unfold word_ok in H. apply andb_true_iff in H. destruct H as [H H3].
  apply andb_true_iff in H. destruct H as [H1 H2]. apply negb_true_iff in H1. apply String.eqb_neq in H1. auto.
Qed.

Lemma rev_acc_nonempty : forall w cur, w <> "" -> rev_string_acc w cur <> "".
Proof.
  intros w cur H E. rewrite rev_acc_app in E. apply sapp_eq_nil in E. destruct E as [E _].
  apply rev_string_nil_inv in E. contradiction.
Qed.

Lemma toks_single : forall w, w <> "" -> no_space w = true -> toks w "" = [w].
Proof.
  intros w Hne Hns. transitivity (toks (w ++ "") ""); [rewrite sapp_nil_r; reflexivity|].
  rewrite toks_word by exact Hns. simpl.
  pose proof (rev_acc_nonempty w "" Hne) as Hr. destruct (rev_string_acc w "") eqn:E; [congruence|].
  rewrite <- E. fold (rev_string w). rewrite rev_string_invol, strip_no_space by exact Hns. reflexivity.
Qed.
Lemma toks_word_space : forall w s, w <> "" -> no_space w = true -> toks (w ++ " " ++ s) "" = w :: toks s "".
Proof.
  intros w s Hne Hns. rewrite toks_word by exact Hns. simpl.
  pose proof (rev_acc_nonempty w "" Hne) as Hr. destruct (rev_string_acc w "") eqn:E; [congruence|].
  rewrite <- E. fold (rev_string w). rewrite rev_string_invol, strip_no_space by exact Hns. reflexivity.
Qed.

Lemma toks_join : forall ws, forallb word_ok ws = true -> toks (join " " ws) "" = ws.
Proof.
  induction ws as [|x t IH]; intros H; [reflexivity|].
  simpl in H. apply andb_true_iff in H. destruct H as [Hx Ht].
  apply word_ok_elim in Hx. destruct Hx as [Hne [Hns _]].
  destruct t as [|y t'].
  - simpl. apply toks_single; assumption.
  - change (join " " (x :: y :: t')) with (x ++ " " ++ join " " (y :: t')).
    rewrite toks_word_space by assumption. rewrite IH by exact Ht. reflexivity.
Qed.

Lemma starts_with_cc_app_space : forall c t x,
  starts_with "//" (String c t ++ String " " x) = starts_with "//" (String c t).
Proof.
  intros c t x. unfold starts_with. cbn [String.append String.prefix]. destruct (ascii_dec "/" c); [|reflexivity].
  destruct t as [|d t']; cbn [String.append String.prefix].
  - destruct (ascii_dec "/" " "); [discriminate|reflexivity].
  - destruct (ascii_dec "/" d); [|reflexivity]. rewrite !prefix_nil. reflexivity.
Qed.
Lemma plain_app_space : forall a b, plain a = true -> plain b = true -> plain (a ++ String " " b) = true.
Proof.
  induction a as [|c t IH]; intros b Ha Hb.
  - simpl. exact Hb.
  - apply plain_cons in Ha. destruct Ha as [Hq [Hc Hp]].
    change (plain (String c t ++ String " " b))
      with (negb (Ascii.eqb c """"%char) && negb (starts_with "//" (String c t ++ String " " b)) && plain (t ++ String " " b)).
    rewrite starts_with_cc_app_space, Hq, Hc, IH by assumption. reflexivity.
Qed.
Lemma plain_join : forall ws, forallb word_ok ws = true -> plain (join " " ws) = true.
Proof.
  induction ws as [|x t IH]; intros H; [reflexivity|].
  simpl in H. apply andb_true_iff in H. destruct H as [Hx Ht].
  apply word_ok_elim in Hx. destruct Hx as [_ [_ Hp]].
  destruct t as [|y t']; [exact Hp|].
  change (join " " (x :: y :: t')) with (x ++ String " " (join " " (y :: t'))).
  apply plain_app_space; auto.
Qed.
Lemma join_nonempty : forall x t, x <> "" -> join " " (x :: t) <> "".
Proof.
  intros x t H E. destruct t; simpl in E; [contradiction|]. apply sapp_eq_nil in E. destruct E; contradiction.
Qed.
Lemma strip_join : forall ws, forallb word_ok ws = true -> strip (join " " ws) = join " " ws.
Proof.
  intros ws H. rewrite strip_eq.
  assert (Hl : lstrip (join " " ws) = join " " ws).
  { destruct ws as [|x t]; [reflexivity|]. simpl in H. apply andb_true_iff in H. destruct H as [Hx _].
    apply word_ok_elim in Hx. destruct Hx as [Hne [Hns _]].
    destruct x as [|c x']; [congruence|]. simpl in Hns. apply andb_true_iff in Hns. destruct Hns as [Hc _].
    apply negb_true_iff in Hc.
    destruct t; simpl; rewrite Hc; reflexivity. }
  rewrite Hl. clear Hl. induction ws as [|x t IH]; [reflexivity|].
  simpl in H. apply andb_true_iff in H. destruct H as [Hx Ht].
  apply word_ok_elim in Hx. destruct Hx as [Hne [Hns _]].
  destruct t as [|y t'].
  - simpl. apply rstrip'_no_space. exact Hns.
  - change (join " " (x :: y :: t')) with (x ++ String " " (join " " (y :: t'))).
    assert (Hy : join " " (y :: t') <> "").
    { apply join_nonempty. simpl in Ht. apply andb_true_iff in Ht. destruct Ht as [Hy _].
      apply word_ok_elim in Hy. tauto. }
    specialize (IH Ht).
    change (String " " (join " " (y :: t'))) with (" " ++ join " " (y :: t')).
    rewrite <- sapp_assoc. rewrite rstrip'_app_nonblank; rewrite IH; [reflexivity|exact Hy].
Qed.

Theorem tokenize_words : forall ws, forallb word_ok ws = true -> tokenize (join " " ws) = Ok ws.
Proof.
  intros ws H. rewrite tokenize_plain; rewrite strip_join by exact H.
  - rewrite toks_join by exact H. reflexivity.
  - apply plain_join. exact H.
Qed.

(* the tokenizer lemma in its simplest form: a non-empty string of non-blank, non-quote characters without //
   is a single token *)
Corollary tokenize_single : forall w, word_ok w = true -> tokenize w = Ok [w].
Proof. intros w H. apply (tokenize_words [w]). simpl. rewrite H. reflexivity. Qed.

(* ====================================================================== *)
(* parse_line, factored                                                     *)
(* ====================================================================== *)
Definition strip_comment (fields0 : list string) : list string :=
  if starts_with "//" (List.last fields0 "") && negb (in_b64 (List.last (but_last fields0) "") "")
  then but_last fields0 else fields0.

Definition parse_fields (fields : list string) : res (option instr) :=
  match fields with
  | [] => Ok None
  | f0 :: rest =>
      let is_lab := match last_char f0 with Some c => Ascii.eqb c ":"%char | None => false end in
      if is_lab then
        match rest with
        | [] => Ok (Some (ILabel (remove_spaces (drop_last f0))))
        | _ => Err "ParseError: incorrect format of label"
        end
      else if (f0 =? "byte") || (f0 =? "pushbytes") || (f0 =? "method") then
        do imm <- parse_byte_args (S (length rest)) rest;
        match imm with
        | [b] => Ok (Some (IOther (if f0 =? "byte" then "Byte" else if f0 =? "pushbytes" then "PushBytes" else "Method") [PStr b]))
        | _ => Err "ParseError: expects exactly one argument"
        end
      else if f0 =? "bytecblock" then
        do imm <- parse_byte_args (S (length rest)) rest; Ok (Some (IOther "Bytecblock" [PStrs imm]))
      else if f0 =? "pushbytess" then
        do imm <- parse_byte_args (S (length rest)) rest; Ok (Some (IOther "PushBytess" [PStrs imm]))
      else
        let l := join " " fields in
        match first_rule l parser_rules with
        | Some (key, cls, sh) =>
            do ps <- parse_imm cls sh (strip (drop (String.length key) l));
            Ok (Some (of_generic cls (fix_params cls ps)))
        | None => Ok (Some (IOther "UnsupportedInstruction" [PStr l]))
        end
  end.

Lemma parse_line_unfold : forall line,
  parse_line line =
  if strip line =? "" then Ok None else do fields0 <- tokenize line; parse_fields (strip_comment fields0).
Proof. reflexivity. Qed.

(* parse_line depends on the line only through strip *)
Theorem parse_line_strip_ext : forall l l', strip l = strip l' -> parse_line l = parse_line l'.
Proof. intros l l' H. rewrite !parse_line_unfold. unfold tokenize. rewrite H. reflexivity. Qed.

Lemma plain_not_comment : forall w, plain w = true -> starts_with "//" w = false.
Proof. destruct w; intros H; [reflexivity|]. apply plain_cons in H. tauto. Qed.

Lemma last_In : forall (ws : list string) d, ws <> [] -> In (List.last ws d) ws.
Proof.
  induction ws as [|x t IH]; intros d H; [congruence|]. destruct t as [|y t'].
  - left. reflexivity.
  - right. apply IH. discriminate.
Qed.

Theorem parse_line_words : forall ws,
  ws <> [] -> forallb word_ok ws = true -> parse_line (join " " ws) = parse_fields ws.
Proof.
  intros ws Hne H. rewrite parse_line_unfold. rewrite strip_join by exact H.
  assert (Hj : join " " ws =? "" = false).
  { apply String.eqb_neq. destruct ws as [|x t]; [congruence|]. apply join_nonempty.
    simpl in H. apply andb_true_iff in H. destruct H as [Hx _]. apply word_ok_elim in Hx. tauto. }
  rewrite Hj, tokenize_words by exact H. cbn [bind]. unfold strip_comment.
  assert (Hl : starts_with "//" (List.last ws "") = false).
  { apply plain_not_comment. rewrite forallb_forall in H. specialize (H _ (last_In ws "" Hne)).
    apply word_ok_elim in H. tauto. }
  rewrite Hl. reflexivity.
Qed.

Definition head_generic (f0 : string) : bool :=
  negb (match last_char f0 with Some c => Ascii.eqb c ":"%char | None => false end) &&
  negb ((f0 =? "byte") || (f0 =? "pushbytes") || (f0 =? "method")) &&
  negb (f0 =? "bytecblock") && negb (f0 =? "pushbytess").

Lemma parse_fields_rule : forall f0 rest key cls sh,
  head_generic f0 = true ->
  first_rule (join " " (f0 :: rest)) parser_rules = Some (key, cls, sh) ->
  parse_fields (f0 :: rest) =
  do ps <- parse_imm cls sh (strip (drop (String.length key) (join " " (f0 :: rest))));
  Ok (Some (of_generic cls (fix_params cls ps))).
Proof.
  intros f0 rest key cls sh Hh Hr. unfold head_generic in Hh.
  apply andb_true_iff in Hh. destruct Hh as [Hh H4]. apply andb_true_iff in Hh. destruct Hh as [Hh H3].
  apply andb_true_iff in Hh. destruct Hh as [H1 H2].
  apply negb_true_iff in H1, H2, H3, H4.
  unfold parse_fields. rewrite H1, H2, H3, H4. cbv zeta. rewrite Hr. reflexivity.
Qed.

Lemma dispatch_closed : forall key r,
  blockers key parser_rules = Some [] -> first_rule key parser_rules = Some r ->
  forall rest, first_rule (key ++ rest) parser_rules = Some r.
Proof.
  intros key r Hb Hf rest. destruct (blockers_sound _ _ _ Hb) as [_ Hall]. rewrite Hall by reflexivity. exact Hf.
Qed.

Lemma join_app : forall a b, a <> [] -> b <> [] -> join " " (a ++ b)%list = join " " a ++ " " ++ join " " b.
Proof.
  induction a as [|x t IH]; intros b Ha Hb; [congruence|]. destruct t as [|y t'].
  - simpl. destruct b; [congruence|reflexivity].
  - change (join " " ((x :: y :: t') ++ b)%list) with (x ++ " " ++ join " " ((y :: t') ++ b)%list).
    rewrite IH by (congruence || discriminate).
    change (join " " (x :: y :: t')) with (x ++ " " ++ join " " (y :: t')).
    rewrite !sapp_assoc. reflexivity.
Qed.

(* parse_imm is parse_shape outside the signed classes (frame_dig / frame_bury) and outside the shape SInt *)
Lemma parse_imm_unsigned : forall cls sh x, signed_imm_class cls = false -> parse_imm cls sh x = parse_shape sh x.
Proof. intros cls sh x H. destruct sh; cbn [parse_imm]; try reflexivity. rewrite H. reflexivity. Qed.
Lemma parse_imm_not_int : forall cls sh x, sh <> SInt -> parse_imm cls sh x = parse_shape sh x.
Proof. intros cls sh x H. destruct sh; cbn [parse_imm]; try reflexivity. congruence. Qed.
Lemma parse_imm_signed : forall cls x, signed_imm_class cls = true ->
  parse_imm cls SInt x = do z <- parse_sint x; Ok [PSInt z].
Proof. intros cls x H. cbn [parse_imm]. rewrite H. reflexivity. Qed.

(* generic round-trip engine: a line made of key words followed by argument words.  (Statement adjusted when signed
   immediates were added: the immediates are read by parse_imm cls sh, which is parse_shape sh except for SInt of a
   signed class.) *)
Theorem parse_line_rule_words : forall kws key cls sh args,
  kws <> [] -> forallb word_ok kws = true -> key = join " " kws ++ " " ->
  head_generic (hd "" kws) = true ->
  blockers key parser_rules = Some [] -> first_rule key parser_rules = Some (key, cls, sh) ->
  args <> [] -> forallb word_ok args = true ->
  parse_line (key ++ join " " args) =
  do ps <- parse_imm cls sh (join " " args); Ok (Some (of_generic cls (fix_params cls ps))).
Proof.
  intros kws key cls sh args Hk Hkw Hkey Hh Hb Hf Ha Haw.
  assert (E : key ++ join " " args = join " " (kws ++ args)%list).
  { rewrite join_app by assumption. rewrite Hkey. rewrite sapp_assoc. reflexivity. }
  rewrite E. rewrite parse_line_words.
  - destruct kws as [|f0 rest]; [congruence|]. cbn [hd] in Hh. cbn [app].
    rewrite (parse_fields_rule f0 (rest ++ args)%list key cls sh Hh).
    + change (f0 :: rest ++ args)%list with ((f0 :: rest) ++ args)%list. rewrite <- E.
      rewrite drop_app. rewrite strip_join by exact Haw. reflexivity.
    + change (f0 :: rest ++ args)%list with ((f0 :: rest) ++ args)%list. rewrite <- E.
      apply dispatch_closed; assumption.
  - destruct kws; [congruence|discriminate].
  - rewrite forallb_app, Hkw, Haw. reflexivity.
Qed.

(* ====================================================================== *)
(* PART 3 : printed form parses back                                        *)
(* ====================================================================== *)
Ltac str_instr :=
  unfold str_of_instr; cbn [cls_of params_of];
  match goal with |- context [lookup_class ?c] =>
    let v := eval vm_compute in (lookup_class c) in
    replace (lookup_class c) with v by (vm_compute; reflexivity) end;
  cbn [c_str str_pieces map str_piece nth_error str_of_param str_of_intarg str_of_field String.concat String.append].
Ltac vmr := vm_compute; reflexivity.

(* --- decidable equality on parse results, for table-wide boolean checks *)
Definition intarg_eq_dec : forall a b : intarg, {a = b} + {a <> b}.
Proof. decide equality; [apply N.eq_dec|apply string_dec]. Defined.
Definition field_eq_dec : forall a b : field, {a = b} + {a <> b}.
Proof. decide equality; [decide equality; apply Z.eq_dec|apply string_dec]. Defined.
Definition param_eq_dec : forall a b : param, {a = b} + {a <> b}.
Proof.
  decide equality; auto using N.eq_dec, Z.eq_dec, intarg_eq_dec, string_dec, field_eq_dec, (list_eq_dec N.eq_dec), (list_eq_dec string_dec).
Defined.
(* instr is compared through an injective encoding (constructor tag, parameters): a direct decide-equality
   on the 37 constructors would produce a quadratic term *)
Definition code (i : instr) : string * list param :=
  match i with
  | IPragma v => ("IPragma", [PInt v]) | ILabel l => ("ILabel", [PStr l])
  | IInt a => ("IInt", [PIntOrName a]) | IPushInt a => ("IPushInt", [PIntOrName a])
  | IIntcblock cs => ("IIntcblock", [PInts cs]) | IIntc n => ("IIntc", [PInt n]) | IIntcK k => ("IIntcK", [PInt k])
  | IAddr a => ("IAddr", [PStr a]) | ITxn f => ("ITxn", [PField f]) | IGtxn n f => ("IGtxn", [PInt n; PField f])
  | IGtxns f => ("IGtxns", [PField f]) | IGlobal f => ("IGlobal", [PStr f])
  | IEq => ("IEq", []) | INeq => ("INeq", []) | ILess => ("ILess", []) | ILessE => ("ILessE", [])
  | IGreater => ("IGreater", []) | IGreaterE => ("IGreaterE", [])
  | IAnd => ("IAnd", []) | IOr => ("IOr", []) | INot => ("INot", []) | IAdd => ("IAdd", []) | ISub => ("ISub", [])
  | IAssert => ("IAssert", []) | IErr => ("IErr", []) | IReturn => ("IReturn", [])
  | IB l => ("IB", [PStr l]) | IBZ l => ("IBZ", [PStr l]) | IBNZ l => ("IBNZ", [PStr l])
  | ISwitch ls => ("ISwitch", [PStrs ls]) | IMatch ls => ("IMatch", [PStrs ls])
  | ICallsub l => ("ICallsub", [PStr l]) | IRetsub => ("IRetsub", [])
  | ICustomErr => ("ICustomErr", [])
  | IOther c ps => ("IOther", PStr c :: ps)
  end.
Definition decode (x : string * list param) : option instr :=
  let (t, ps) := x in
  match ps with
  | [] =>
      if t =? "IEq" then Some IEq else if t =? "INeq" then Some INeq else if t =? "ILess" then Some ILess
      else if t =? "ILessE" then Some ILessE else if t =? "IGreater" then Some IGreater
      else if t =? "IGreaterE" then Some IGreaterE else if t =? "IAnd" then Some IAnd else if t =? "IOr" then Some IOr
      else if t =? "INot" then Some INot else if t =? "IAdd" then Some IAdd else if t =? "ISub" then Some ISub
      else if t =? "IAssert" then Some IAssert else if t =? "IErr" then Some IErr else if t =? "IReturn" then Some IReturn
      else if t =? "IRetsub" then Some IRetsub else if t =? "ICustomErr" then Some ICustomErr else None
  | PStr c :: ps' =>
      if t =? "IOther" then Some (IOther c ps') else
      match ps' with
      | [] =>
          if t =? "ILabel" then Some (ILabel c) else if t =? "IAddr" then Some (IAddr c)
          else if t =? "IGlobal" then Some (IGlobal c) else if t =? "IB" then Some (IB c)
          else if t =? "IBZ" then Some (IBZ c) else if t =? "IBNZ" then Some (IBNZ c)
          else if t =? "ICallsub" then Some (ICallsub c) else None
      | _ => None
      end
  | [PInt n] =>
      if t =? "IPragma" then Some (IPragma n) else if t =? "IIntc" then Some (IIntc n)
      else if t =? "IIntcK" then Some (IIntcK n) else None
  | [PIntOrName a] => if t =? "IInt" then Some (IInt a) else if t =? "IPushInt" then Some (IPushInt a) else None
  | [PInts l] => if t =? "IIntcblock" then Some (IIntcblock l) else None
  | [PStrs l] => if t =? "ISwitch" then Some (ISwitch l) else if t =? "IMatch" then Some (IMatch l) else None
  | [PField f] => if t =? "ITxn" then Some (ITxn f) else if t =? "IGtxns" then Some (IGtxns f) else None
  | [PInt n; PField f] => if t =? "IGtxn" then Some (IGtxn n f) else None
  | _ => None
  end.
Lemma decode_code : forall i, decode (code i) = Some i.
Proof. destruct i; reflexivity. Qed.
Lemma code_inj : forall a b, code a = code b -> a = b.
Proof. intros a b H. apply (f_equal decode) in H. rewrite !decode_code in H. congruence. Qed.

Definition code_eq_dec : forall a b : string * list param, {a = b} + {a <> b}.
Proof. decide equality; [apply (list_eq_dec param_eq_dec)|apply string_dec]. Defined.
Definition res_instr_eqb (a b : res (option instr)) : bool :=
  match a, b with
  | Ok None, Ok None => true
  | Ok (Some i), Ok (Some j) => if code_eq_dec (code i) (code j) then true else false
  | Err e, Err e' => e =? e'
  | _, _ => false
  end.
Lemma res_instr_eqb_eq : forall a b, res_instr_eqb a b = true -> a = b.
Proof.
  intros [[i|]|e] [[j|]|e'] H; simpl in H; try discriminate; try reflexivity.
  - destruct (code_eq_dec (code i) (code j)) as [E|]; [|discriminate]. apply code_inj in E. congruence.
  - apply String.eqb_eq in H. congruence.
Qed.

(* --- fragment opcodes without immediates *)
Definition fragment_nullary : list instr :=
  [IErr; IAssert; IReturn; IRetsub; IEq; INeq; ILess; ILessE; IGreater; IGreaterE; IAnd; IOr; INot; IAdd; ISub;
   IIntcK 0; IIntcK 1; IIntcK 2; IIntcK 3].
Definition roundtrips (i : instr) : bool := res_instr_eqb (parse_line (str_of_instr i)) (Ok (Some i)).
Lemma fragment_nullary_check : forallb roundtrips fragment_nullary = true.
Proof. vmr. Qed.
Theorem roundtrip_nullary : forall i, In i fragment_nullary -> parse_line (str_of_instr i) = Ok (Some i).
Proof.
  intros i H. pose proof fragment_nullary_check as Hc. rewrite forallb_forall in Hc.
  apply res_instr_eqb_eq. apply (Hc i H).
Qed.
Theorem roundtrip_intck : forall k, (k < 4)%N -> parse_line (str_of_instr (IIntcK k)) = Ok (Some (IIntcK k)).
Proof.
  intros k H. apply roundtrip_nullary.
  assert (k = 0 \/ k = 1 \/ k = 2 \/ k = 3)%N as [ -> | [ -> | [ -> | -> ] ] ] by lia; unfold fragment_nullary; auto 25 using in_eq, in_cons.
Qed.

(* --- every opcode without immediates of the whole table *)
Definition check_snone (r : string * (string * shape)) : bool :=
  negb (is_snone (snd (snd r))) ||
  (res_instr_eqb (parse_line (fst r)) (Ok (Some (of_generic (fst (snd r)) []))) &&
   (str_of_instr (of_generic (fst (snd r)) []) =? fst r)).
Lemma check_snone_all : forallb check_snone parser_rules = true.
Proof. vmr. Qed.
Theorem roundtrip_all_bare : forall key cls, In (key, (cls, SNone)) parser_rules ->
  parse_line key = Ok (Some (of_generic cls [])) /\ str_of_instr (of_generic cls []) = key.
Proof.
  intros key cls H. pose proof check_snone_all as Hc. rewrite forallb_forall in Hc. specialize (Hc _ H).
  unfold check_snone in Hc. cbn [fst snd is_snone negb orb] in Hc. apply andb_true_iff in Hc. destruct Hc as [H1 H2].
  split; [apply res_instr_eqb_eq; exact H1|apply String.eqb_eq; exact H2].
Qed.
Corollary roundtrip_all_bare_str : forall key cls, In (key, (cls, SNone)) parser_rules ->
  parse_line (str_of_instr (of_generic cls [])) = Ok (Some (of_generic cls [])).
Proof. intros key cls H. destruct (roundtrip_all_bare key cls H) as [H1 H2]. rewrite H2. exact H1. Qed.

(* no opcode without immediates prints differently from its parser key *)
Theorem print_key_mismatch :
  filter (fun r => is_snone (snd (snd r)) && negb (str_of_instr (of_generic (fst (snd r)) []) =? fst r)) parser_rules = [].
Proof. vmr. Qed.

(* rules with immediates: the literal head of the printing format (followed by " " when the next piece is a
   " x"-per-element join) must start with the parser key *)
Definition fmt_head (ps : list spiece) : string :=
  match ps with
  | PLit s :: PJoin _ :: _ => s ++ " "
  | PLit s :: _ => s
  | _ => ""
  end.
Definition fmt_heads (f : sfmt) : list string :=
  match f with FPlain ps => [fmt_head ps] | FIfSome _ ps qs => [fmt_head ps; fmt_head qs] end.
Definition printed_prefix_ok (r : string * (string * shape)) : bool :=
  match lookup_class (fst (snd r)) with
  | Some ci => forallb (starts_with (fst r)) (fmt_heads (c_str ci))
  | None => false
  end.
(* finding: these four classes print capitalised, so their printed form is not dispatched to their own rule *)
Theorem printed_prefix_mismatch :
  map (fun r => (fst r, fst (snd r), option_map c_str (lookup_class (fst (snd r)))))
      (filter (fun r => negb (is_snone (snd (snd r))) && negb (printed_prefix_ok r)) parser_rules)
  = [].   (* fixed in /repo 25f0d78; was gtxns, gtxnsa, gitxnas, gtxnas printing capitalised *)
Proof. vmr. Qed.
(* the join-printed classes print the bare mnemonic for an empty list, which is not dispatched to their rule *)
Theorem printed_join_classes :
  map (fun r => (fst r, fst (snd r)))
      (filter (fun r => match lookup_class (fst (snd r)) with
                        | Some ci => match c_str ci with FPlain (PLit _ :: PJoin _ :: _) => true | _ => false end
                        | None => false end) parser_rules)
  = [("pushints ", "PushInts"); ("intcblock", "Intcblock"); ("switch ", "Switch"); ("match ", "Match")].
Proof. vmr. Qed.
Theorem empty_join_not_roundtrip :
  parse_line (str_of_instr (ISwitch [])) = Ok (Some (IOther "UnsupportedInstruction" [PStr "switch"])) /\
  parse_line (str_of_instr (IMatch [])) = Ok (Some (IOther "UnsupportedInstruction" [PStr "match"])) /\
  parse_line (str_of_instr (IOther "PushInts" [PInts []])) = Ok (Some (IOther "UnsupportedInstruction" [PStr "pushints"])) /\
  parse_line (str_of_instr (IIntcblock [])) = Ok (Some (IIntcblock [])).
Proof. repeat split; vmr. Qed.

(* --- words made of decimal digits *)
Lemma digit_char_props : forall c,
  (Nat.leb 48 (nat_of_ascii c) && Nat.leb (nat_of_ascii c) 57)%bool = true ->
  is_space c = false /\ Ascii.eqb c """"%char = false /\ c <> "/"%char.
Proof.
  intros c. destruct c as [[] [] [] [] [] [] [] []]; vm_compute; intros H; try discriminate H;
    (split; [reflexivity|split; [reflexivity|discriminate]]).
Qed.
Lemma all_digits_no_space : forall s, all_digits s = true -> no_space s = true.
Proof.
  induction s as [|c t IH]; intros H; [reflexivity|]. cbn [all_digits] in H.
  apply andb_true_iff in H. destruct H as [H1 H2]. apply digit_char_props in H1. destruct H1 as [H1 _].
  simpl. rewrite H1, IH by exact H2. reflexivity.
Qed.
Lemma all_digits_plain : forall s, all_digits s = true -> plain s = true.
Proof.
  induction s as [|c t IH]; intros H; [reflexivity|]. cbn [all_digits] in H.
  apply andb_true_iff in H. destruct H as [H1 H2]. apply digit_char_props in H1. destruct H1 as [_ [Hq Hs]].
  cbn [plain]. rewrite Hq, IH by exact H2. unfold starts_with. cbn [String.prefix].
  destruct (ascii_dec "/" c); [congruence|reflexivity].
Qed.
Lemma all_digits_word : forall s, s <> "" -> all_digits s = true -> word_ok s = true.
Proof.
  intros s Hne H. unfold word_ok. rewrite all_digits_no_space, all_digits_plain by exact H.
  apply String.eqb_neq in Hne. rewrite Hne. reflexivity.
Qed.
Lemma string_of_N_digits : forall n, string_of_N n <> "" /\ all_digits (string_of_N n) = true.
Proof.
  intros n. rewrite string_of_N_base.
  pose proof (all_digits_base10 (digits_fuel n) n "" eq_refl) as H.
  destruct (base_digits_head_fuel 10 n ltac:(lia)) as [d [t [E _]]]. rewrite E in *. split; [discriminate|exact H].
Qed.
Lemma word_ok_string_of_N : forall n, word_ok (string_of_N n) = true.
Proof. intros n. destruct (string_of_N_digits n). apply all_digits_word; assumption. Qed.

Lemma is_space_not_sp : forall c, is_space c = false -> Ascii.eqb c " "%char = false.
Proof.
  intros c H. destruct (Ascii.eqb c " ") eqn:E; [|reflexivity]. apply Ascii.eqb_eq in E. subst. discriminate.
Qed.
Lemma remove_spaces_no_space : forall l, no_space l = true -> remove_spaces l = l.
Proof.
  induction l as [|c t IH]; intros H; [reflexivity|]. simpl in H. apply andb_true_iff in H. destruct H as [H1 H2].
  apply negb_true_iff in H1. simpl. rewrite (is_space_not_sp c H1), IH by exact H2. reflexivity.
Qed.

(* split_space on words *)
Lemma split_space_acc_word : forall w s cur, no_space w = true ->
  split_space_acc (w ++ s) cur = split_space_acc s (rev_string_acc w cur).
Proof.
  induction w as [|c t IH]; intros s cur H; [reflexivity|]. simpl in H. apply andb_true_iff in H. destruct H as [H1 H2].
  apply negb_true_iff in H1. simpl. rewrite (is_space_not_sp c H1). apply IH. exact H2.
Qed.
Lemma split_space_word : forall w, no_space w = true -> split_space w = [w].
Proof.
  intros w H. unfold split_space. transitivity (split_space_acc (w ++ "") ""); [rewrite sapp_nil_r; reflexivity|].
  rewrite split_space_acc_word by exact H. simpl. fold (rev_string w). rewrite rev_string_invol. reflexivity.
Qed.
Lemma split_space_word_sp : forall w s, no_space w = true -> split_space (w ++ " " ++ s) = w :: split_space s.
Proof.
  intros w s H. unfold split_space. rewrite split_space_acc_word by exact H. simpl.
  fold (rev_string w). rewrite rev_string_invol. reflexivity.
Qed.

(* --- immediates: integers *)
Lemma str_int : forall n, str_of_instr (IInt (IANum n)) = "int " ++ string_of_N n.
Proof. intros. str_instr. reflexivity. Qed.
Lemma str_pushint : forall n, str_of_instr (IPushInt (IANum n)) = "pushint " ++ string_of_N n.
Proof. intros. str_instr. reflexivity. Qed.
Lemma str_intc : forall n, str_of_instr (IIntc n) = "intc " ++ string_of_N n.
Proof. intros. str_instr. reflexivity. Qed.
Lemma str_pragma : forall n, str_of_instr (IPragma n) = "#pragma version " ++ string_of_N n.
Proof. intros. str_instr. reflexivity. Qed.

Lemma word_ok_single : forall w, word_ok w = true -> forallb word_ok [w] = true.
Proof. intros w H. simpl. rewrite H. reflexivity. Qed.

Ltac use_engine kws key cls sh w :=
  change (key ++ w) with (key ++ join " " [w]);
  rewrite (parse_line_rule_words kws key cls sh [w]);
  [ try (rewrite (parse_imm_unsigned cls sh) by vmr) | discriminate | vmr | vmr | vmr | vmr | vmr | discriminate | apply word_ok_single ].

Lemma parse_int_or_name_num : forall n, parse_int_or_name (string_of_N n) = Ok (IANum n).
Proof. intros n. unfold parse_int_or_name. rewrite is_int_string_of_N, parse_int_decimal. reflexivity. Qed.

Theorem roundtrip_int : forall n, parse_line (str_of_instr (IInt (IANum n))) = Ok (Some (IInt (IANum n))).
Proof.
  intros n. rewrite str_int. use_engine ["int"] "int " "Int" SIntOrName (string_of_N n).
  - cbn [join parse_shape]. rewrite parse_int_or_name_num. reflexivity.
  - apply word_ok_string_of_N.
Qed.
Theorem roundtrip_pushint : forall n, parse_line (str_of_instr (IPushInt (IANum n))) = Ok (Some (IPushInt (IANum n))).
Proof.
  intros n. rewrite str_pushint. use_engine ["pushint"] "pushint " "PushInt" SIntOrName (string_of_N n).
  - cbn [join parse_shape]. rewrite parse_int_or_name_num. reflexivity.
  - apply word_ok_string_of_N.
Qed.
Theorem roundtrip_intc : forall n, parse_line (str_of_instr (IIntc n)) = Ok (Some (IIntc n)).
Proof.
  intros n. rewrite str_intc. use_engine ["intc"] "intc " "Intc" SInt (string_of_N n).
  - cbn [join parse_shape]. rewrite parse_int_decimal. reflexivity.
  - apply word_ok_string_of_N.
Qed.
Theorem roundtrip_pragma : forall n, parse_line (str_of_instr (IPragma n)) = Ok (Some (IPragma n)).
Proof.
  intros n. rewrite str_pragma.
  use_engine ["#pragma"; "version"] "#pragma version " "Pragma" SInt (string_of_N n).
  - cbn [join parse_shape]. rewrite parse_int_decimal. reflexivity.
  - apply word_ok_string_of_N.
Qed.

(* --- immediates: fields of the generated tables *)
Definition tx_field_ok (c : string) : bool :=
  word_ok c && match parse_tx_field c false with Ok (c', None) => c' =? c | _ => false end.
Lemma tx_field_ok_elim : forall c, tx_field_ok c = true -> word_ok c = true /\ parse_tx_field c false = Ok (c, None).
Proof.
  intros c H. unfold tx_field_ok in H. apply andb_true_iff in H. destruct H as [H1 H2]. split; [exact H1|].
  destruct (parse_tx_field c false) as [[c' [z|]]|e]; try discriminate. apply String.eqb_eq in H2. subst. reflexivity.
Qed.
Lemma tx_fields_ok : forallb (fun e => tx_field_ok (fst (snd e))) tx_fields = true.
Proof. vmr. Qed.
Lemma tx_field_in_ok : forall txt cls v, In (txt, (cls, v)) tx_fields -> tx_field_ok cls = true.
Proof. intros txt cls v H. pose proof tx_fields_ok as Hc. rewrite forallb_forall in Hc. apply (Hc _ H). Qed.

Lemma str_txn : forall f, str_of_instr (ITxn (f, None)) = "txn " ++ f.
Proof. intros. str_instr. reflexivity. Qed.
Lemma str_gtxns : forall f, str_of_instr (IGtxns (f, None)) = "gtxns " ++ f.
Proof. intros. str_instr. reflexivity. Qed.
Lemma str_gtxn : forall n f, str_of_instr (IGtxn n (f, None)) = "gtxn " ++ string_of_N n ++ " " ++ f.
Proof. intros. str_instr. reflexivity. Qed.
Lemma str_global : forall f, str_of_instr (IGlobal f) = "global " ++ f.
Proof. intros. str_instr. reflexivity. Qed.

Theorem roundtrip_txn_gen : forall f, tx_field_ok f = true ->
  parse_line (str_of_instr (ITxn (f, None))) = Ok (Some (ITxn (f, None))).
Proof.
  intros f H. apply tx_field_ok_elim in H. destruct H as [Hw Hp]. rewrite str_txn.
  use_engine ["txn"] "txn " "Txn" STxField f.
  - cbn [join parse_shape]. rewrite Hp. reflexivity.
  - exact Hw.
Qed.
Theorem roundtrip_txn : forall txt cls v, In (txt, (cls, v)) tx_fields ->
  parse_line (str_of_instr (ITxn (cls, None))) = Ok (Some (ITxn (cls, None))).
Proof. intros. eapply roundtrip_txn_gen, tx_field_in_ok; eauto. Qed.

(* gtxns: printed form parses back (after the repair of the capitalised printing, /repo 25f0d78) *)
Theorem parse_gtxns_gen : forall f, tx_field_ok f = true ->
  parse_line ("gtxns " ++ f) = Ok (Some (IGtxns (f, None))).
Proof.
  intros f H. apply tx_field_ok_elim in H. destruct H as [Hw Hp].
  use_engine ["gtxns"] "gtxns " "Gtxns" STxField f.
  - cbn [join parse_shape]. rewrite Hp. reflexivity.
  - exact Hw.
Qed.
Theorem parse_gtxns : forall txt cls v, In (txt, (cls, v)) tx_fields ->
  parse_line ("gtxns " ++ cls) = Ok (Some (IGtxns (cls, None))).
Proof. intros. eapply parse_gtxns_gen, tx_field_in_ok; eauto. Qed.
Theorem roundtrip_gtxns : forall txt cls v, In (txt, (cls, v)) tx_fields ->
  parse_line (str_of_instr (IGtxns (cls, None))) = Ok (Some (IGtxns (cls, None))).
Proof. intros. rewrite str_gtxns. eapply parse_gtxns; eauto. Qed.

Theorem roundtrip_gtxn_gen : forall n f, tx_field_ok f = true ->
  parse_line (str_of_instr (IGtxn n (f, None))) = Ok (Some (IGtxn n (f, None))).
Proof.
  intros n f H. apply tx_field_ok_elim in H. destruct H as [Hw Hp].
  rewrite str_gtxn. change ("gtxn " ++ string_of_N n ++ " " ++ f) with ("gtxn " ++ join " " [string_of_N n; f]).
  rewrite (parse_line_rule_words ["gtxn"] "gtxn " "Gtxn" SGtxn [string_of_N n; f]);
    [ | discriminate | vmr | vmr | vmr | vmr | vmr | discriminate | ].
  - change (join " " [string_of_N n; f]) with (string_of_N n ++ " " ++ f). cbn [parse_imm parse_shape].
    pose proof (word_ok_string_of_N n) as Hn. apply word_ok_elim in Hn. destruct Hn as [_ [Hn _]].
    apply word_ok_elim in Hw. destruct Hw as [_ [Hf _]].
    rewrite split_space_word_sp by exact Hn. rewrite split_space_word by exact Hf.
    rewrite parse_int_decimal. cbn [bind join]. rewrite Hp. reflexivity.
  - simpl. rewrite word_ok_string_of_N, Hw. reflexivity.
Qed.
Theorem roundtrip_gtxn : forall n txt cls v, In (txt, (cls, v)) tx_fields ->
  parse_line (str_of_instr (IGtxn n (cls, None))) = Ok (Some (IGtxn n (cls, None))).
Proof. intros. eapply roundtrip_gtxn_gen, tx_field_in_ok; eauto. Qed.

Definition global_field_ok (c : string) : bool :=
  word_ok c && match assoc c global_fields with Some (c', _) => c' =? c | None => false end.
Lemma global_fields_ok : forallb (fun e => global_field_ok (fst (snd e))) global_fields = true.
Proof. vmr. Qed.
Theorem roundtrip_global_gen : forall f, global_field_ok f = true ->
  parse_line (str_of_instr (IGlobal f)) = Ok (Some (IGlobal f)).
Proof.
  intros f H. unfold global_field_ok in H. apply andb_true_iff in H. destruct H as [Hw Hp].
  rewrite str_global. use_engine ["global"] "global " "Global" SGlobalField f.
  - cbn [join parse_shape]. unfold parse_named_field.
    destruct (assoc f global_fields) as [[c' v]|]; [|discriminate]. apply String.eqb_eq in Hp. subst. reflexivity.
  - exact Hw.
Qed.
Theorem roundtrip_global : forall txt cls v, In (txt, (cls, v)) global_fields ->
  parse_line (str_of_instr (IGlobal cls)) = Ok (Some (IGlobal cls)).
Proof.
  intros txt cls v H. apply roundtrip_global_gen. pose proof global_fields_ok as Hc.
  rewrite forallb_forall in Hc. apply (Hc _ H).
Qed.

(* --- immediates: labels and addresses.  label_ok l: l is one token: non-empty, no blank, no double quote, no // *)
Definition label_ok (l : string) : bool := word_ok l.

Lemma str_b : forall l, str_of_instr (IB l) = "b " ++ l. Proof. intros. str_instr. reflexivity. Qed.
Lemma str_bz : forall l, str_of_instr (IBZ l) = "bz " ++ l. Proof. intros. str_instr. reflexivity. Qed.
Lemma str_bnz : forall l, str_of_instr (IBNZ l) = "bnz " ++ l. Proof. intros. str_instr. reflexivity. Qed.
Lemma str_callsub : forall l, str_of_instr (ICallsub l) = "callsub " ++ l. Proof. intros. str_instr. reflexivity. Qed.
Lemma str_addr : forall l, str_of_instr (IAddr l) = "addr " ++ l. Proof. intros. str_instr. reflexivity. Qed.
Lemma str_label : forall l, str_of_instr (ILabel l) = l ++ ":". Proof. intros. str_instr. reflexivity. Qed.

Lemma fix_params_strip : forall c l, no_space l = true -> fix_params c [PStr l] = [PStr l].
Proof.
  intros c l H. unfold fix_params. destruct (label_strip c); [|reflexivity]. simpl.
  rewrite remove_spaces_no_space by exact H. reflexivity.
Qed.

Ltac label_rt kw key cls l H :=
  let Hw := fresh in pose proof H as Hw; unfold label_ok in Hw;
  use_engine [kw] key cls SStr l;
  [ cbn [join parse_shape bind]; rewrite fix_params_strip by (apply word_ok_elim in Hw; tauto); reflexivity
  | exact Hw ].

Theorem roundtrip_b : forall l, label_ok l = true -> parse_line (str_of_instr (IB l)) = Ok (Some (IB l)).
Proof. intros l H. rewrite str_b. label_rt "b" "b " "B" l H. Qed.
Theorem roundtrip_bz : forall l, label_ok l = true -> parse_line (str_of_instr (IBZ l)) = Ok (Some (IBZ l)).
Proof. intros l H. rewrite str_bz. label_rt "bz" "bz " "BZ" l H. Qed.
Theorem roundtrip_bnz : forall l, label_ok l = true -> parse_line (str_of_instr (IBNZ l)) = Ok (Some (IBNZ l)).
Proof. intros l H. rewrite str_bnz. label_rt "bnz" "bnz " "BNZ" l H. Qed.
Theorem roundtrip_callsub : forall l, label_ok l = true -> parse_line (str_of_instr (ICallsub l)) = Ok (Some (ICallsub l)).
Proof. intros l H. rewrite str_callsub. label_rt "callsub" "callsub " "Callsub" l H. Qed.
Theorem roundtrip_addr : forall a, label_ok a = true -> parse_line (str_of_instr (IAddr a)) = Ok (Some (IAddr a)).
Proof. intros l H. rewrite str_addr. label_rt "addr" "addr " "Addr" l H. Qed.

(* each conjunct of label_ok is needed: empty target, inner blank, //, double quote *)
Theorem label_ok_needed :
  parse_line (str_of_instr (IB "")) <> Ok (Some (IB "")) /\
  parse_line (str_of_instr (IB "a b")) <> Ok (Some (IB "a b")) /\
  parse_line (str_of_instr (IB "a//b")) <> Ok (Some (IB "a//b")) /\
  parse_line (str_of_instr (IB (String """"%char "a"))) <> Ok (Some (IB (String """"%char "a"))).
Proof. repeat split; intro H; vm_compute in H; discriminate H. Qed.

(* label definition  l:  -- l may even be empty; it must contain no blank, no double quote, no // *)
Definition labeldef_ok (l : string) : bool := no_space l && plain l.

Lemma starts_with_cc_app_char : forall c t d x, d <> "/"%char ->
  starts_with "//" (String c t ++ String d x) = starts_with "//" (String c t).
Proof.
  intros c t d x Hd. unfold starts_with. cbn [String.append String.prefix]. destruct (ascii_dec "/" c); [|reflexivity].
  destruct t as [|c2 t']; cbn [String.append String.prefix].
  - destruct (ascii_dec "/" d); [congruence|reflexivity].
  - destruct (ascii_dec "/" c2); [|reflexivity]. rewrite !prefix_nil. reflexivity.
Qed.
Lemma plain_app_char : forall a d b, d <> "/"%char -> plain a = true -> plain (String d b) = true ->
  plain (a ++ String d b) = true.
Proof.
  induction a as [|c t IH]; intros d b Hd Ha Hb.
  - exact Hb.
  - apply plain_cons in Ha. destruct Ha as [Hq [Hc Hp]].
    change (plain (String c t ++ String d b))
      with (negb (Ascii.eqb c """"%char) && negb (starts_with "//" (String c t ++ String d b)) && plain (t ++ String d b)).
    rewrite starts_with_cc_app_char, Hq, Hc, IH by assumption. reflexivity.
Qed.
Lemma no_space_app : forall a b, no_space (a ++ b) = no_space a && no_space b.
Proof. induction a as [|c t IH]; intros b; simpl; [reflexivity|]. rewrite IH. apply andb_assoc. Qed.
Lemma last_char_snoc : forall l c, last_char (l ++ String c "") = Some c.
Proof.
  induction l as [|d t IH]; intros c; [reflexivity|]. simpl. destruct (t ++ String c "") eqn:E; [|rewrite <- E; apply IH].
  apply sapp_eq_nil in E. destruct E; discriminate.
Qed.
Lemma drop_last_snoc : forall l c, drop_last (l ++ String c "") = l.
Proof.
  induction l as [|d t IH]; intros c; [reflexivity|]. simpl. destruct (t ++ String c "") eqn:E.
  - apply sapp_eq_nil in E. destruct E; discriminate.
  - rewrite <- E, IH. reflexivity.
Qed.

Theorem roundtrip_label : forall l, labeldef_ok l = true -> parse_line (str_of_instr (ILabel l)) = Ok (Some (ILabel l)).
Proof.
  intros l H. unfold labeldef_ok in H. apply andb_true_iff in H. destruct H as [Hs Hp].
  rewrite str_label. change (l ++ ":") with (join " " [l ++ ":"]).
  rewrite parse_line_words; [|discriminate|].
  - unfold parse_fields. rewrite last_char_snoc. change (Ascii.eqb ":" ":") with true. cbv iota.
    rewrite drop_last_snoc, remove_spaces_no_space by exact Hs. reflexivity.
  - simpl. rewrite andb_true_r. unfold word_ok. rewrite no_space_app, Hs.
    rewrite plain_app_char by (try discriminate; try assumption; reflexivity).
    destruct (l ++ ":") eqn:E; [apply sapp_eq_nil in E; destruct E; discriminate|reflexivity].
Qed.

(* ====================================================================== *)
(* PART 4 : whitespace and comments                                         *)
(* ====================================================================== *)
Theorem parse_line_lead_spaces : forall sp l, all_space sp = true -> parse_line (sp ++ l) = parse_line l.
Proof. intros. apply parse_line_strip_ext. apply strip_lead_spaces. assumption. Qed.
Theorem parse_line_trail_spaces : forall l sp, all_space sp = true -> parse_line (l ++ sp) = parse_line l.
Proof. intros. apply parse_line_strip_ext. apply strip_trail_spaces. assumption. Qed.
Corollary parse_line_lead_2 : forall l, parse_line ("  " ++ l) = parse_line l.
Proof. intros. apply parse_line_lead_spaces. reflexivity. Qed.
Corollary parse_line_trail_3 : forall l, parse_line (l ++ "   ") = parse_line l.
Proof. intros. apply parse_line_trail_spaces. reflexivity. Qed.

Theorem parse_line_blank : forall l, all_space l = true -> parse_line l = Ok None.
Proof.
  intros l H. rewrite parse_line_unfold, strip_eq, lstrip_all_space by exact H. reflexivity.
Qed.

Lemma rstrip'_cons_nonspace : forall c t, is_space c = false -> rstrip' (String c t) = String c (rstrip' t).
Proof. intros c t H. simpl. rewrite H. destruct (rstrip' t); reflexivity. Qed.
Lemma rstrip'_comment : forall c, rstrip' (String "/" (String "/" c)) = String "/" (String "/" (rstrip' c)).
Proof. intros. rewrite !rstrip'_cons_nonspace by reflexivity. reflexivity. Qed.

Lemma starts_with_comment : forall r, starts_with "//" (String "/" (String "/" r)) = true.
Proof. intros r. unfold starts_with. cbn [String.prefix]. destruct (ascii_dec "/" "/"); [apply prefix_nil|congruence]. Qed.

Lemma in_b64_nil : forall prev, in_b64 prev "" = is_b64_kw prev.
Proof. reflexivity. Qed.

(* "//" at the start of a token is a comment unless the previous token is base64 / b64 *)
Lemma tokenize_acc_comment_start : forall f r prev, is_b64_kw prev = false ->
  tokenize_acc (S f) (String "/" (String "/" r)) "" prev = Ok [String "/" (String "/" r)].
Proof.
  intros f r prev Hk. cbn [tokenize_acc]. change (is_space "/") with false. change (Ascii.eqb "/" """") with false. cbv iota.
  rewrite starts_with_comment, in_b64_nil, Hk. reflexivity.
Qed.

Theorem parse_line_comment_only : forall sp c, all_space sp = true -> parse_line (sp ++ "//" ++ c) = Ok None.
Proof.
  intros sp c H. rewrite parse_line_unfold. unfold tokenize.
  rewrite strip_eq, lstrip_spaces_app by exact H.
  change (lstrip ("//" ++ c)) with (String "/" (String "/" c)). rewrite rstrip'_comment.
  change (String "/" (String "/" (rstrip' c)) =? "") with false. cbv iota.
  rewrite tokenize_acc_comment_start by reflexivity. cbn [bind]. unfold strip_comment. cbn [List.last but_last].
  rewrite starts_with_comment. reflexivity.
Qed.

Lemma slength_app : forall a b, String.length (a ++ b) = String.length a + String.length b.
Proof. induction a; intros; simpl; auto. Qed.

Lemma last_cons_def : forall (x : string) l d, List.last (x :: l) d = List.last l x.
Proof.
  intros x l. revert x. induction l as [|y l IH]; intros x d; [reflexivity|].
  change (List.last (x :: y :: l) d) with (List.last (y :: l) d). rewrite !IH. reflexivity.
Qed.

(* plain text, a blank, then "//": a comment token, PROVIDED the token before it ([prev] when the text has none) is not
   base64 / b64 -- after these keywords "//..." is base64 data *)
Lemma tokenize_acc_comment : forall s fuel cur prev r,
  String.length s + 1 < fuel -> plain s = true ->
  is_b64_kw (List.last (toks (s ++ " ") cur) prev) = false ->
  tokenize_acc fuel (s ++ String " " (String "/" (String "/" r))) cur prev
  = Ok (toks (s ++ " ") cur ++ [String "/" (String "/" r)])%list.
Proof.
  induction s as [|c t IH]; intros fuel cur prev r Hf Hp Hk.
  - destruct fuel as [|f]; [simpl in Hf; lia|].
    cbn [String.append] in *. cbn [tokenize_acc]. change (is_space " ") with true. cbv iota.
    destruct f as [|f']; [simpl in Hf; lia|].
    destruct cur as [|d cur'].
    + apply tokenize_acc_comment_start. exact Hk.
    + cbv zeta. rewrite tokenize_acc_comment_start by exact Hk. reflexivity.
  - destruct fuel as [|f]; [simpl in Hf; lia|]. simpl in Hf.
    apply plain_cons in Hp. destruct Hp as [Hq [Hc Hp]].
    assert (Hc' : starts_with "//" (String c t ++ String " " (String "/" (String "/" r))) = false).
    { rewrite starts_with_cc_app_space. exact Hc. }
    change (String c t ++ String " " (String "/" (String "/" r)))
      with (String c (t ++ String " " (String "/" (String "/" r)))) in *.
    cbn [tokenize_acc]. change (String c t ++ " ") with (String c (t ++ " ")) in *. cbn [toks] in *.
    destruct (is_space c).
    + destruct cur as [|d cur'].
      * apply IH; [lia|assumption|exact Hk].
      * cbv zeta. rewrite last_cons_def in Hk. rewrite IH by (assumption || lia). reflexivity.
    + rewrite Hq, Hc'. cbn [andb]. apply IH; [lia|assumption|exact Hk].
Qed.

Lemma plain_app_l : forall a b, plain (a ++ b) = true -> plain a = true.
Proof.
  induction a as [|c t IH]; intros b H; [reflexivity|].
  change (String c t ++ b) with (String c (t ++ b)) in H. apply plain_cons in H. destruct H as [Hq [Hc Hp]].
  cbn [plain]. rewrite Hq, (IH _ Hp).
  assert (starts_with "//" (String c t) = false) as ->; [|reflexivity].
  unfold starts_with in *. destruct (String.prefix "//" (String c t)) eqn:E; [|reflexivity].
  apply prefix_app_l with (r := b) in E. change (String c t ++ b) with (String c (t ++ b)) in E. congruence.
Qed.
Lemma plain_app_r : forall a b, plain (a ++ b) = true -> plain b = true.
Proof.
  induction a as [|c t IH]; intros b H; [exact H|].
  change (String c t ++ b) with (String c (t ++ b)) in H. apply plain_cons in H. apply IH. tauto.
Qed.
Lemma plain_lstrip : forall l, plain l = true -> plain (lstrip l) = true.
Proof.
  induction l as [|c t IH]; intros H; [reflexivity|]. simpl. destruct (is_space c); [|exact H].
  apply IH. apply plain_cons in H. tauto.
Qed.
Lemma no_space_rev : forall s, no_space (rev_string s) = no_space s.
Proof.
  induction s as [|c t IH]; [reflexivity|]. rewrite rev_string_cons, no_space_app, IH. simpl.
  rewrite andb_true_r. apply andb_comm.
Qed.

Lemma toks_not_comment : forall s cur, no_space cur = true -> plain (rev_string cur ++ s) = true ->
  Forall (fun tk => starts_with "//" tk = false) (toks s cur).
Proof.
  assert (Htok : forall cur x, no_space cur = true -> plain (rev_string cur ++ x) = true ->
                 starts_with "//" (strip (rev_string cur)) = false).
  { intros cur x Hn Hp. rewrite strip_no_space by (rewrite no_space_rev; exact Hn).
    apply plain_not_comment. eapply plain_app_l. exact Hp. }
  induction s as [|c t IH]; intros cur Hn Hp.
  - simpl. destruct cur as [|d cur']; [constructor|]. constructor; [|constructor]. eapply Htok; eauto.
  - cbn [toks]. destruct (is_space c) eqn:Ec.
    + assert (Ht : plain t = true).
      { apply plain_app_r in Hp. apply plain_cons in Hp. tauto. }
      destruct cur as [|d cur'].
      * apply IH; [reflexivity|exact Ht].
      * constructor; [eapply Htok; eauto|]. apply IH; [reflexivity|exact Ht].
    + apply IH.
      * simpl. rewrite Ec, Hn. reflexivity.
      * rewrite rev_string_cons, sapp_assoc. exact Hp.
Qed.

Lemma but_last_snoc : forall (a : list string) z, but_last (a ++ [z]) = a.
Proof.
  induction a as [|x t IH]; intros z; [reflexivity|]. simpl. destruct (t ++ [z])%list eqn:E.
  - destruct t; discriminate.
  - rewrite <- E, IH. reflexivity.
Qed.
Lemma lstrip_nil_all_space : forall l, lstrip l = "" -> all_space l = true.
Proof.
  induction l as [|c t IH]; intros H; [reflexivity|]. simpl in *. destruct (is_space c); [auto|discriminate].
Qed.
Lemma lstrip_head_nonspace : forall l c t, lstrip l = String c t -> is_space c = false.
Proof.
  induction l as [|d l' IH]; intros c t H; [discriminate|]. simpl in H. destruct (is_space d) eqn:Ed; [eauto|].
  inversion H; subst. exact Ed.
Qed.
Lemma all_space_app : forall a b, all_space (a ++ b) = all_space a && all_space b.
Proof. induction a as [|c t IH]; intros b; simpl; [reflexivity|]. rewrite IH. apply andb_assoc. Qed.

(* the last token of l is the keyword base64 / b64 (what follows it is base64 data, even when it starts with //) *)
Definition last_tok_b64 (l : string) : bool := is_b64_kw (List.last (toks (strip l) "") "").

(* a trailing comment is ignored: l contains no double quote and no // and does not end with the token base64 / b64;
   c is arbitrary *)
Theorem parse_line_comment_gen : forall l c, plain l = true -> last_tok_b64 l = false ->
  parse_line (l ++ " //" ++ c) = parse_line l.
Proof.
  intros l c Hp Hb. destruct (lstrip l) as [|c0 L0] eqn:EL.
  - apply lstrip_nil_all_space in EL. rewrite (parse_line_blank l EL).
    change (l ++ " //" ++ c) with (l ++ " " ++ "//" ++ c). rewrite <- sapp_assoc.
    apply parse_line_comment_only. rewrite all_space_app, EL. reflexivity.
  - pose proof (lstrip_head_nonspace _ _ _ EL) as Hc0.
    assert (HpL : plain (String c0 L0) = true) by (rewrite <- EL; apply plain_lstrip; exact Hp).
    set (L := String c0 L0) in *.
    destruct (rstrip'_decomp L) as [sp [Hsp ER]].
    assert (Et : toks (rstrip' L) "" = toks L "").
    { rewrite ER at 2. rewrite toks_trail_spaces by exact Hsp. reflexivity. }
    unfold last_tok_b64 in Hb. rewrite strip_eq, EL in Hb. fold L in Hb. rewrite Et in Hb.
    (* left side *)
    assert (Es : strip (l ++ " //" ++ c) = L ++ String " " (String "/" (String "/" (rstrip' c)))).
    { rewrite strip_eq, lstrip_nonblank_app by (rewrite EL; discriminate). rewrite EL.
      change (L ++ " //" ++ c) with (L ++ " " ++ String "/" (String "/" c)). rewrite <- sapp_assoc.
      rewrite rstrip'_app_nonblank; rewrite rstrip'_comment; [|discriminate]. rewrite sapp_assoc. reflexivity. }
    rewrite (parse_line_unfold (l ++ " //" ++ c)). unfold tokenize. rewrite Es.
    change (L ++ String " " (String "/" (String "/" (rstrip' c))) =? "") with false. cbv iota.
    rewrite tokenize_acc_comment;
      [|rewrite slength_app; simpl; lia|exact HpL|rewrite toks_trail_spaces by reflexivity; exact Hb].
    cbn [bind]. unfold strip_comment. rewrite last_last.
    rewrite starts_with_comment, but_last_snoc, toks_trail_spaces by reflexivity.
    rewrite in_b64_nil, Hb. cbn [andb negb].
    (* right side *)
    assert (HR : plain (rstrip' L) = true) by (eapply plain_app_l; rewrite <- ER; exact HpL).
    rewrite (parse_line_unfold l). rewrite tokenize_plain; rewrite strip_eq, EL; fold L; [|exact HR].
    assert (ERne : rstrip' L =? "" = false).
    { unfold L. rewrite rstrip'_cons_nonspace by exact Hc0. reflexivity. }
    rewrite ERne. cbn [bind].
    rewrite Et. unfold strip_comment.
    assert (Hlast : starts_with "//" (List.last (toks L "") "") = false).
    { pose proof (toks_not_comment L "" eq_refl HpL) as Hall. rewrite Forall_forall in Hall.
      destruct (toks L "") as [|x xs] eqn:Etk; [reflexivity|]. apply Hall. apply last_In. discriminate. }
    rewrite Hlast. reflexivity.
Qed.
Theorem parse_line_comment : forall l c, plain l = true -> last_tok_b64 l = false ->
  parse_line (l ++ " // " ++ c) = parse_line l.
Proof. intros l c H Hb. apply (parse_line_comment_gen l (" " ++ c) H Hb). Qed.

(* the hypothesis on the last token is needed: after base64 / b64 the text "// c" is base64 data *)
Theorem parse_line_comment_b64_needed :
  plain "byte base64" = true /\ last_tok_b64 "byte base64" = true /\
  parse_line "byte base64" = Err "ParseError: incorrect byte format" /\
  parse_line ("byte base64" ++ " //" ++ "8=") = Ok (Some (IOther "Byte" [PStr "0xffff"])).
Proof. repeat split; vm_compute; reflexivity. Qed.

(* ====================================================================== *)
(* Assumption audit                                                         *)
(* ====================================================================== *)
Print Assumptions dispatch_bare.
Print Assumptions dispatch_partial.
Print Assumptions dispatch_refuted.
Print Assumptions dispatch_general.
Print Assumptions parser_keys_nodup.
Print Assumptions parse_int_spellings.
Print Assumptions is_int_string_of_N.
Print Assumptions roundtrip_nullary.
Print Assumptions roundtrip_all_bare.
Print Assumptions printed_prefix_mismatch.
Print Assumptions roundtrip_int.
Print Assumptions roundtrip_pragma.
Print Assumptions roundtrip_txn.
Print Assumptions roundtrip_gtxn.
Print Assumptions roundtrip_gtxns.
Print Assumptions roundtrip_global.
Print Assumptions roundtrip_b.
Print Assumptions roundtrip_label.
Print Assumptions label_ok_needed.
Print Assumptions tokenize_words.
Print Assumptions roundtrip_addr.
Print Assumptions parse_line_lead_spaces.
Print Assumptions parse_line_trail_spaces.
Print Assumptions parse_line_comment.
Print Assumptions parse_line_comment_b64_needed.
Print Assumptions parse_line_comment_only.
Print Assumptions parse_line_blank.
