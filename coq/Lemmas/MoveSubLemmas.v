(* Property C15 (moving whole subroutine bodies), layer 2: the parse level.

   p  = M ++ S1 ++ S2 ++ R      p' = M ++ S2 ++ S1 ++ R      g = swap_shift |M| |S1| |S2|  (the induced position shift)

   Proved for ALL programs (no size bound), under the decidable side condition [movable M S1 S2]:
     - S1 and S2 are not empty,
     - the last instruction of M, of S1 and of S2 never falls through (b / err / return / retsub),
     - no label is defined both in S1 and in S2 (the tool keeps the LAST definition of a label: swapping two
       definitions of one label would change every jump to it -- [mv_find_label_refuted]);
   the INSTRUCTION-level control-flow graph of p' (tealer's first_pass / second_pass: opcodes, label table,
   Instruction.next with the default successor first) is the g-image of that of p:
       [mv_op_at]  [mv_find_label]  [mv_ins_next]  [mv_branch_to_next].
   These discharge the two program-dependent obligations of IsoLemmas.fiso (iso_ops, iso_bnext) for every pair of
   parsed contracts.  The BLOCK-level packaging (create_bb numbering, order of the prev lists, the subroutine DFS, the
   callsub table, whole_function) is NOT proved in general; it is delivered as the decidable check
   [iso_check_graph] computed by the model, with the block renaming [mv_r] computed from the block scan of p:
       [move_sub_verdicts_partial] : whenever the model's graph check accepts the pair, contexts, validation and the
       reported paths of every detector coincide up to the renaming, for every fuel.
   What remains for the unconditional statement is exactly: movable /\ S1, S2 start with a label /\ no jump from
   one moved body into the other  ==>  iso_check_graph (mv_r ..) (mv_g ..) (whole_function t) (whole_function t') = true. *)
From Coq Require Import String List NArith ZArith Bool Arith Lia.
From Tealer Require Import Tables LeafPrelude Leaves Syntax Parse Cfg StackAst Keys Analysis Domains Detect
  SubLemmas IsoLemmas.
Import ListNotations.
Open Scope string_scope.
Open Scope list_scope.

Ltac ltb_cases :=
  repeat match goal with
         | |- context [Nat.ltb ?x ?y] => destruct (Nat.ltb_spec x y)
         | H : context [Nat.ltb ?x ?y] |- _ => destruct (Nat.ltb_spec x y)
         end.

(* ====================================================================== labels: offset of the last definition *)
Definition lab_off (l : string) (A : prog) : option nat := find_label_from l A 0 None.

Lemma flf_off l : forall A k acc,
  find_label_from l A k acc = match lab_off l A with Some j => Some (k + j) | None => acc end.
Proof.
  induction A as [|i t IH]; intros k acc; [reflexivity|].
  unfold lab_off. cbn [find_label_from]. rewrite (IH (S k)), (IH 1).
  destruct (lab_off l t) as [j|]; [f_equal; lia|].
  destruct (i_op i); try reflexivity. destruct (l0 =? l); [f_equal; lia|reflexivity].
Qed.

Lemma flf_app l : forall X Y k acc,
  find_label_from l (X ++ Y) k acc = find_label_from l Y (k + length X) (find_label_from l X k acc).
Proof.
  induction X as [|i t IH]; intros Y k acc.
  - cbn [app length find_label_from]. rewrite Nat.add_0_r. reflexivity.
  - cbn [app length find_label_from]. rewrite IH. f_equal. lia.
Qed.

Lemma lab_off_cons l i t :
  lab_off l (i :: t) = match lab_off l t with
                       | Some j => Some (S j)
                       | None => match i_op i with ILabel l' => if l' =? l then Some 0 else None | _ => None end
                       end.
Proof.
  unfold lab_off at 1. cbn [find_label_from]. rewrite flf_off. destruct (lab_off l t); reflexivity.
Qed.

Lemma lab_off_lt l : forall A j, lab_off l A = Some j -> j < length A.
Proof.
  induction A as [|i t IH]; intros j H; [discriminate|].
  rewrite lab_off_cons in H. cbn [length]. destruct (lab_off l t) as [j'|].
  - inversion H; subst. specialize (IH j' eq_refl). lia.
  - destruct (i_op i); try discriminate. destruct (l0 =? l); [|discriminate]. inversion H. lia.
Qed.

Lemma lab_off_in l : forall A j, lab_off l A = Some j -> exists i, In i A /\ i_op i = ILabel l.
Proof.
  induction A as [|i t IH]; intros j H; [discriminate|].
  rewrite lab_off_cons in H. destruct (lab_off l t) as [j'|].
  - destruct (IH j' eq_refl) as [x [Hin Hx]]. exists x. split; [right; exact Hin|exact Hx].
  - destruct (i_op i) eqn:E; try discriminate. destruct (l0 =? l) eqn:El; [|discriminate].
    apply String.eqb_eq in El. subst. exists i. split; [left; reflexivity|exact E].
Qed.

Lemma find_label_4 l (A B C D : prog) :
  find_label (A ++ B ++ C ++ D) l =
  match lab_off l D with
  | Some j => Some (length A + length B + length C + j)
  | None => match lab_off l C with
            | Some j => Some (length A + length B + j)
            | None => match lab_off l B with
                      | Some j => Some (length A + j)
                      | None => lab_off l A
                      end
            end
  end.
Proof.
  unfold find_label. rewrite !flf_app, !flf_off. cbn [Nat.add].
  destruct (lab_off l D); [f_equal; lia|].
  destruct (lab_off l C); [f_equal; lia|].
  destruct (lab_off l B); [f_equal; lia|].
  destruct (lab_off l A); reflexivity.
Qed.

(* no label defined in both segments *)
Definition labs_disjoint (A B : prog) : bool :=
  forallb (fun i => match i_op i with
                    | ILabel l => match lab_off l B with None => true | Some _ => false end
                    | _ => true
                    end) A.

Lemma labs_disjoint_spec A B : labs_disjoint A B = true -> forall l, lab_off l A = None \/ lab_off l B = None.
Proof.
  intros H l. destruct (lab_off l A) as [j|] eqn:E; [right|left; reflexivity].
  destruct (lab_off_in l A j E) as [i [Hin Hi]].
  unfold labs_disjoint in H. rewrite forallb_forall in H. specialize (H i Hin). rewrite Hi in H.
  destruct (lab_off l B); [discriminate|reflexivity].
Qed.

(* a segment whose last instruction never falls through (or an empty one) *)
Definition ends_nf (A : prog) : bool :=
  match rev A with [] => true | i :: _ => no_fallthrough (i_op i) end.

Lemma ends_nf_last A i : ends_nf A = true -> nth_error A (length A - 1) = Some i -> no_fallthrough (i_op i) = true.
Proof.
  unfold ends_nf. destruct A as [|x A'] using rev_ind; [destruct i; discriminate|].
  intros H Hn. rewrite rev_app_distr in H. cbn [rev app] in H.
  rewrite app_length in Hn. cbn [length] in Hn.
  rewrite nth_error_app2 in Hn by lia. replace (length A' + 1 - 1 - length A') with 0 in Hn by lia.
  cbn in Hn. inversion Hn; subst. exact H.
Qed.

(* ====================================================================== the moved program *)
Definition mv_p (M S1 S2 R : prog) : prog := M ++ S1 ++ S2 ++ R.
Definition mv_p' (M S1 S2 R : prog) : prog := M ++ S2 ++ S1 ++ R.
Definition mv_g (M S1 S2 : prog) : nat -> nat := swap_shift (length M) (length S1) (length S2).
Definition movable (M S1 S2 : prog) : bool :=
  ends_nf M && ends_nf S1 && ends_nf S2 && labs_disjoint S1 S2 && Nat.ltb 0 (length S1) && Nat.ltb 0 (length S2).

Lemma movable_spec M S1 S2 : movable M S1 S2 = true ->
  ends_nf M = true /\ ends_nf S1 = true /\ ends_nf S2 = true /\ labs_disjoint S1 S2 = true /\
  0 < length S1 /\ 0 < length S2.
Proof.
  unfold movable. intros H.
  repeat (apply andb_true_iff in H; let H2 := fresh "C" in destruct H as [H H2]).
  apply Nat.ltb_lt in C, C0. repeat split; assumption.
Qed.

Section Move.
  Variables M S1 S2 R : prog.
  Notation p := (mv_p M S1 S2 R).
  Notation p' := (mv_p' M S1 S2 R).
  Notation g := (mv_g M S1 S2).
  Notation a := (length M).
  Notation m := (length S1).
  Notation n := (length S2).

  Lemma mv_length : length p' = length p.
  Proof. unfold mv_p, mv_p'. rewrite !app_length. lia. Qed.

  Lemma mv_g_inj x y : g x = g y -> x = y.
  Proof. apply swap_shift_inj. Qed.

  Lemma mv_nth k : nth_error p' (g k) = nth_error p k.
  Proof.
    unfold mv_p, mv_p', mv_g, swap_shift.
    destruct (Nat.ltb_spec k a) as [H1|H1].
    { rewrite !nth_error_app1 by lia. reflexivity. }
    rewrite (nth_error_app2 M (S1 ++ S2 ++ R)) by lia.
    destruct (Nat.ltb_spec k (a + m)) as [H2|H2].
    { rewrite (nth_error_app1 S1) by lia.
      rewrite (nth_error_app2 M) by lia. rewrite (nth_error_app2 S2) by lia.
      rewrite (nth_error_app1 S1) by lia. f_equal. lia. }
    rewrite (nth_error_app2 S1) by lia.
    destruct (Nat.ltb_spec k (a + m + n)) as [H3|H3].
    { rewrite (nth_error_app1 S2) by lia.
      rewrite (nth_error_app2 M) by lia. rewrite (nth_error_app1 S2) by lia. f_equal. lia. }
    rewrite (nth_error_app2 S2) by lia.
    rewrite (nth_error_app2 M) by lia. rewrite (nth_error_app2 S2) by lia. rewrite (nth_error_app2 S1) by lia.
    f_equal. lia.
  Qed.

  (* opcodes: for every position *)
  Theorem mv_op_at k : op_at p' (g k) = op_at p k.
  Proof. unfold op_at. rewrite mv_nth. reflexivity. Qed.

  Lemma mv_g_ltb x : Nat.ltb (g x) (length p) = Nat.ltb x (length p).
  Proof.
    unfold mv_p, mv_g, swap_shift. rewrite !app_length.
    destruct (Nat.ltb_spec x (a + (m + (n + length R)))); ltb_cases; lia.
  Qed.

  Hypothesis MOV : movable M S1 S2 = true.

  Lemma mv_disjoint l : lab_off l S1 = None \/ lab_off l S2 = None.
  Proof.
    destruct (movable_spec M S1 S2 MOV) as (_ & _ & _ & H & _).
    exact (labs_disjoint_spec S1 S2 H l).
  Qed.

  (* the label table *)
  Theorem mv_find_label l : find_label p' l = option_map g (find_label p l).
  Proof.
    unfold mv_p, mv_p'. rewrite !find_label_4.
    pose proof (lab_off_lt l S1) as L1. pose proof (lab_off_lt l S2) as L2. pose proof (lab_off_lt l M) as LM.
    destruct (mv_disjoint l) as [D|D]; rewrite D in *;
      destruct (lab_off l R) as [jr|]; cbn [option_map]; try (f_equal; unfold mv_g, swap_shift; ltb_cases; lia).
    - destruct (lab_off l S2) as [j2|]; cbn [option_map].
      + specialize (L2 j2 eq_refl). f_equal. unfold mv_g, swap_shift. ltb_cases; lia.
      + destruct (lab_off l M) as [jm|]; cbn [option_map]; [|reflexivity].
        specialize (LM jm eq_refl). f_equal. unfold mv_g, swap_shift. ltb_cases; lia.
    - destruct (lab_off l S1) as [j1|]; cbn [option_map].
      + specialize (L1 j1 eq_refl). f_equal. unfold mv_g, swap_shift. ltb_cases; lia.
      + destruct (lab_off l M) as [jm|]; cbn [option_map]; [|reflexivity].
        specialize (LM jm eq_refl). f_equal. unfold mv_g, swap_shift. ltb_cases; lia.
  Qed.

  Lemma mv_map_opt_labels ls :
    map_opt (find_label p') ls = option_map (map g) (map_opt (find_label p) ls).
  Proof.
    induction ls as [|l ls IH]; [reflexivity|].
    cbn [map_opt]. rewrite mv_find_label, IH.
    destruct (find_label p l); cbn [option_map]; [|reflexivity].
    destruct (map_opt (find_label p) ls); reflexivity.
  Qed.

  (* an instruction that falls through is not the last one of M, S1 or S2 *)
  Lemma mv_not_boundary k i : nth_error p k = Some i -> no_fallthrough (i_op i) = false ->
    S k <> a /\ S k <> a + m /\ S k <> a + m + n.
  Proof.
    intros Hk Hnf. destruct (movable_spec M S1 S2 MOV) as (EM & E1 & E2 & _ & N1 & N2).
    unfold mv_p in Hk. repeat split; intros Hb.
    - rewrite nth_error_app1 in Hk by lia. replace k with (a - 1) in Hk by lia.
      rewrite (ends_nf_last M i EM Hk) in Hnf. discriminate.
    - rewrite nth_error_app2 in Hk by lia. rewrite nth_error_app1 in Hk by lia.
      replace (k - a) with (m - 1) in Hk by lia.
      rewrite (ends_nf_last S1 i E1 Hk) in Hnf. discriminate.
    - rewrite nth_error_app2 in Hk by lia. rewrite nth_error_app2 in Hk by lia.
      rewrite nth_error_app1 in Hk by lia.
      replace (k - a - m) with (n - 1) in Hk by lia.
      rewrite (ends_nf_last S2 i E2 Hk) in Hnf. discriminate.
  Qed.

  Lemma mv_g_succ k : S k <> a -> S k <> a + m -> S k <> a + m + n -> g (S k) = S (g k).
  Proof. intros H1 H2 H3. unfold mv_g, swap_shift. ltb_cases; lia. Qed.

  (* Instruction.next: default successor first, then the jump targets in order *)
  Theorem mv_ins_next k : ins_next p' (g k) = option_map (map g) (ins_next p k).
  Proof.
    unfold ins_next, op_at. rewrite mv_nth.
    destruct (nth_error p k) as [i|] eqn:E; cbn [option_map]; [|reflexivity].
    rewrite mv_map_opt_labels, mv_length.
    destruct (no_fallthrough (i_op i)) eqn:Enf; cbn [negb andb].
    - destruct (map_opt (find_label p) (jump_labels (i_op i))); reflexivity.
    - destruct (mv_not_boundary k i E Enf) as [H1 [H2 H3]].
      rewrite <- (mv_g_succ k H1 H2 H3), mv_g_ltb.
      destruct (Nat.ltb (S k) (length p));
        destruct (map_opt (find_label p) (jump_labels (i_op i))); cbn [option_map app map]; reflexivity.
  Qed.

  (* the "branch to the next line" test of bz / bnz *)
  Theorem mv_branch_to_next br k : op_at p k = Some br ->
    branch_to_next p' br (g k) = branch_to_next p br k.
  Proof.
    intros Hop. unfold op_at in Hop. destruct (nth_error p k) as [i|] eqn:E; [|discriminate].
    cbn [option_map] in Hop. inversion Hop; subst br. clear Hop.
    assert (Hgen : forall l, no_fallthrough (i_op i) = false ->
              match find_label p' l with Some t => Nat.eqb t (S (g k)) | None => false end =
              match find_label p l with Some t => Nat.eqb t (S k) | None => false end).
    { intros l Hnf. rewrite mv_find_label. destruct (find_label p l) as [t|]; cbn [option_map]; [|reflexivity].
      destruct (mv_not_boundary k i E Hnf) as [H1 [H2 H3]]. rewrite <- (mv_g_succ k H1 H2 H3).
      destruct (Nat.eqb t (S k)) eqn:Et.
      - apply Nat.eqb_eq in Et. subst. apply Nat.eqb_refl.
      - apply Nat.eqb_neq. intros Hc. apply mv_g_inj in Hc. apply Nat.eqb_neq in Et. contradiction. }
    destruct (i_op i) eqn:Ei; try reflexivity; cbn [branch_to_next]; apply Hgen; reflexivity.
  Qed.
End Move.

(* the side condition on labels is necessary: with one label defined in both bodies the LAST definition wins, and
   the swap changes it *)
Theorem mv_find_label_refuted :
  exists M S1 S2 R l,
    ends_nf M = true /\ ends_nf S1 = true /\ ends_nf S2 = true /\ S1 <> [] /\ S2 <> [] /\
    labs_disjoint S1 S2 = false /\
    find_label (mv_p' M S1 S2 R) l <> option_map (mv_g M S1 S2) (find_label (mv_p M S1 S2 R) l).
Proof.
  exists [mkIns 1 (IB "x")], [mkIns 2 (ILabel "x"); mkIns 3 IErr], [mkIns 4 (ILabel "x"); mkIns 5 IReturn], [], "x".
  repeat split; try reflexivity; try (vm_compute; discriminate).
Qed.

(* ====================================================================== the block level: decidable check *)
Definition iso_check_graph (r g : nat -> nat) (f f' : func) : bool :=
  dec_b (list_eq_dec block_eq_dec_iso (fn_blocks f') (map (ren_block r g) (fn_blocks f))) &&
  Nat.eqb (fn_entry f') (r (fn_entry f)) &&
  dec_b (list_eq_dec sub_eq_dec_iso (fn_subs f') (map (ren_sub r) (fn_subs f))) &&
  dec_b (opt_eq_dec_iso (list_eq_dec N.eq_dec) (fn_intcs f') (fn_intcs f)) &&
  forallb (fun name => dec_b (opt_eq_dec_iso sub_eq_dec_iso (f_find_sub f' name) (option_map (ren_sub r) (f_find_sub f name))))
          (map s_name (fn_all_subs f) ++ map s_name (fn_all_subs f')) &&
  forallb (fun b => dec_b (opt_eq_dec_iso string_dec (f_sub_of f' (r (b_idx b))) (f_sub_of f (b_idx b)))) (fn_blocks f).

Lemma iso_check_graph_sound r g f f' :
  (forall x y, r x = r y -> x = y) -> (forall x y, g x = g y -> x = y) ->
  (forall k, op_at (fn_prog f') (g k) = op_at (fn_prog f) k) ->
  (forall br k, op_at (fn_prog f) k = Some br ->
                branch_to_next (fn_prog f') br (g k) = branch_to_next (fn_prog f) br k) ->
  iso_check_graph r g f f' = true -> fiso r g f f'.
Proof.
  intros Hr Hg Hops Hbn H. unfold iso_check_graph in H.
  repeat (apply andb_true_iff in H; let H2 := fresh "C" in destruct H as [H H2]).
  rename H into C4.
  constructor; try assumption.
  - exact (dec_b_true _ C4).
  - intros b k _ _. apply Hops.
  - intros b br _ Hop. apply Hbn. unfold fexit_op in Hop. destruct (b_ins b); [discriminate|exact Hop].
  - apply Nat.eqb_eq. exact C3.
  - exact (dec_b_true _ C2).
  - exact (dec_b_true _ C1).
  - intros name.
    destruct (in_dec string_dec name (map s_name (fn_all_subs f) ++ map s_name (fn_all_subs f'))) as [Hin|Hnin].
    + rewrite forallb_forall in C0. exact (dec_b_true _ (C0 name Hin)).
    + unfold f_find_sub. rewrite in_app_iff in Hnin.
      rewrite !iso_find_sub_none by tauto. reflexivity.
  - intros b Hb. rewrite forallb_forall in C. exact (dec_b_true _ (C b Hb)).
Qed.

(* the induced block renaming, computed from the block scan of p: the blocks are numbered in source order, so the
   blocks of S1 / S2 are the index ranges between the blocks that contain the first positions of S1, S2 and R *)
Definition blk_at (bs : list block) (k : nat) : nat :=
  match bb_of_pos bs k with Some i => i | None => length bs end.
Definition mv_r (M S1 S2 R : prog) : nat -> nat :=
  match build_blocks (mv_p M S1 S2 R) with
  | Some bs =>
      let a := blk_at bs (length M) in
      let b := blk_at bs (length M + length S1) in
      let c := blk_at bs (length M + length S1 + length S2) in
      swap_shift a (b - a) (c - b)
  | None => fun k => k
  end.

Lemma mv_r_inj M S1 S2 R x y : mv_r M S1 S2 R x = mv_r M S1 S2 R y -> x = y.
Proof.
  unfold mv_r. destruct (build_blocks (mv_p M S1 S2 R)); [apply swap_shift_inj|auto].
Qed.

Lemma whole_function_prog t : fn_prog (whole_function t) = t_prog t.
Proof. reflexivity. Qed.

(* moving a whole body: whenever the model's graph check accepts the pair of parsed contracts, every context, every
   validation verdict and the path list of every detector coincide up to the induced renaming, for every fuel *)
Theorem move_sub_verdicts_partial M S1 S2 R t t' :
  movable M S1 S2 = true ->
  parse_teal (mv_p M S1 S2 R) = Ok t -> parse_teal (mv_p' M S1 S2 R) = Ok t' ->
  iso_check_graph (mv_r M S1 S2 R) (mv_g M S1 S2) (whole_function t) (whole_function t') = true ->
  let r := mv_r M S1 S2 R in
  fiso r (mv_g M S1 S2) (whole_function t) (whole_function t') /\
  forall fuel,
  run_all (whole_function t') fuel = omap (ren_result r) (run_all (whole_function t) fuel) /\
  forall res,
    (forall b fam, ctx_of (ren_result r res) (r b) fam = ctx_of res b fam) /\
    (forall b checks ai, validated_in_block (ren_result r res) checks ai (r b) = validated_in_block res checks ai b) /\
    (forall fuel' name checks,
       run_detector (whole_function t') (ren_result r res) fuel' name checks =
       omap (ren_paths r) (run_detector (whole_function t) res fuel' name checks)).
Proof.
  intros MOV Hp Hp' Hchk r.
  destruct (parse_teal_inv _ _ Hp) as (bs & subs0 & _ & _ & _ & Eprog & _).
  destruct (parse_teal_inv _ _ Hp') as (bs' & subs0' & _ & _ & _ & Eprog' & _).
  assert (ISO : fiso r (mv_g M S1 S2) (whole_function t) (whole_function t')).
  { apply iso_check_graph_sound.
    - apply mv_r_inj.
    - apply mv_g_inj.
    - intros k. rewrite !whole_function_prog, Eprog, Eprog'. apply mv_op_at.
    - intros br k. rewrite !whole_function_prog, Eprog, Eprog'. apply mv_branch_to_next. exact MOV.
    - exact Hchk. }
  split; [exact ISO|]. exact (iso_verdicts r (mv_g M S1 S2) _ _ ISO).
Qed.

Print Assumptions mv_op_at.
Print Assumptions mv_find_label.
Print Assumptions mv_ins_next.
Print Assumptions mv_branch_to_next.
Print Assumptions mv_find_label_refuted.
Print Assumptions move_sub_verdicts_partial.
