(* C07 (txn_types): which detector-relevant labels survive each comparison pattern of [type_single].
   The label sets are taken from the GENERATED tables (Gen/Tables.v) through the very expressions that
   Model/Domains.type_single uses; the concrete meaning of a pattern / label is an independent spec. *)
From Coq Require Import String List NArith ZArith Bool Arith Lia.
From Tealer Require Import Tables LeafPrelude Leaves Syntax Parse Cfg StackAst Keys Analysis Domains LeafLemmas.
Import ListNotations.
Open Scope string_scope.
Open Scope list_scope.

(* ====================================================================== *)
(* 1. Patterns, sides, labels, concrete transactions                       *)
(* ====================================================================== *)

Inductive pattern :=
| PType (c : N)      (* txn TypeEnum == c        *)
| POnc (c : N)       (* txn OnCompletion == c    *)
| PApp0              (* txn ApplicationID == 0   *)
| PAppBare.          (* txn ApplicationID  (bare read used as a condition) *)

(* (true_set, false_set) of the pattern: same expressions as in [type_single] *)
Definition tf_pair (p : pattern) : list string * list string :=
  match p with
  | PType c =>
      match transaction_type_to_tealer_type (IntNum c) with
      | Some l => ([l], ldiff TYPEENUM_TRANSACTION_TYPES [l])
      | None => (ALL_TRANSACTION_TYPES, ALL_TRANSACTION_TYPES)
      end
  | POnc c =>
      match oncompletion_to_tealer_type (IntNum c) with
      | Some l => ([l], ldiff APPLICATION_TRANSACTION_TYPES [l])
      | None => (ALL_TRANSACTION_TYPES, ALL_TRANSACTION_TYPES)
      end
  | PApp0 => (appl_creation, appl_not_creation)
  | PAppBare => (appl_not_creation, appl_creation)
  end.

Definition side_set (p : pattern) (side : bool) : list string :=
  if side then fst (tf_pair p) else snd (tf_pair p).

(* concrete truth of the comparison on the transaction (TypeEnum t, OnCompletion o, ApplicationID a) *)
Definition pattern_truth (p : pattern) (t o a : N) : bool :=
  match p with
  | PType c => N.eqb t c
  | POnc c => N.eqb o c
  | PApp0 => N.eqb a 0
  | PAppBare => negb (N.eqb a 0)
  end.

(* the four detector-relevant labels *)
Definition c07_labels : list string := ["Pay"; "Axfer"; "ApplUpdateApplication"; "ApplDeleteApplication"].

Definition carries (t o a : N) (lab : string) : bool :=
  if lab =? "Pay" then N.eqb t 1
  else if lab =? "Axfer" then N.eqb t 4
  else if lab =? "ApplUpdateApplication" then N.eqb t 6 && N.eqb o 4
  else if lab =? "ApplDeleteApplication" then N.eqb t 6 && N.eqb o 5
  else false.

(* range of concrete transactions: o and a are only meaningful for appl (t = 6) *)
Definition in_range (t o a : N) : Prop :=
  (1 <= t <= 6)%N /\ (o <= 5)%N /\ (t <> 6%N -> o = 0%N /\ a = 0%N).

Definition in_range_b (t o a : N) : bool :=
  N.leb 1 t && N.leb t 6 && N.leb o 5 && (N.eqb t 6 || (N.eqb o 0 && N.eqb a 0)).

(* representative of an ApplicationID: only (a = 0) matters *)
Definition norm_app (a : N) : N := if N.eqb a 0 then 0%N else 7%N.

Definition all_txns : list (N * N * N) :=
  filter (fun x => match x with (t, o, a) => in_range_b t o a end)
    (flat_map (fun t => flat_map (fun o => map (fun a => (t, o, a)) [0; 7]%N) [0; 1; 2; 3; 4; 5]%N)
       [1; 2; 3; 4; 5; 6]%N).

Definition all_patterns : list pattern :=
  map PType [1; 2; 3; 4; 5; 6]%N ++ map POnc [0; 1; 2; 3; 4; 5]%N ++ [PApp0; PAppBare].

Definition all_triples : list (pattern * bool * string) :=
  flat_map (fun p => flat_map (fun s => map (fun l => (p, s, l)) c07_labels) [true; false]) all_patterns.

Definition obligation_b (pat : pattern) (side : bool) (lab : string) (x : N * N * N) : bool :=
  match x with
  | (t, o, a) =>
      implb (Bool.eqb (pattern_truth pat t o a) side && carries t o a lab) (smem lab (side_set pat side))
  end.

Definition preserved (pat : pattern) (side : bool) (lab : string) : bool :=
  forallb (obligation_b pat side lab) all_txns.

Definition preserved3 (x : pattern * bool * string) : bool :=
  match x with (p, s, l) => preserved p s l end.

Definition pat_name (p : pattern) : string :=
  match p with
  | PType c =>
      "TypeEnum == " ++
      (match c with 1 => "pay" | 2 => "keyreg" | 3 => "acfg" | 4 => "axfer" | 5 => "afrz" | 6 => "appl" | _ => "?" end)%N
  | POnc c =>
      "OnCompletion == " ++
      (match c with 0 => "NoOp" | 1 => "OptIn" | 2 => "CloseOut" | 3 => "ClearState"
               | 4 => "UpdateApplication" | 5 => "DeleteApplication" | _ => "?" end)%N
  | PApp0 => "ApplicationID == 0"
  | PAppBare => "ApplicationID (bare)"
  end.

Definition triple_name (x : pattern * bool * string) : string * bool * string :=
  match x with (p, s, l) => (pat_name p, s, l) end.


(* ====================================================================== *)
(* 2. The table of dropped (pattern, side, label) obligations = finding D16 *)
(* ====================================================================== *)

Definition dropped_table : list (pattern * bool * string) :=
  [ (PType 1, false, "ApplUpdateApplication"); (PType 1, false, "ApplDeleteApplication");
    (PType 2, false, "ApplUpdateApplication"); (PType 2, false, "ApplDeleteApplication");
    (PType 3, false, "ApplUpdateApplication"); (PType 3, false, "ApplDeleteApplication");
    (PType 4, false, "ApplUpdateApplication"); (PType 4, false, "ApplDeleteApplication");
    (PType 5, false, "ApplUpdateApplication"); (PType 5, false, "ApplDeleteApplication");
    (PType 6, true, "ApplUpdateApplication");  (PType 6, true, "ApplDeleteApplication");
    (POnc 0, true, "Pay");  (POnc 0, true, "Axfer");
    (POnc 1, false, "Pay"); (POnc 1, false, "Axfer");
    (POnc 2, false, "Pay"); (POnc 2, false, "Axfer");
    (POnc 3, false, "Pay"); (POnc 3, false, "Axfer");
    (POnc 4, false, "Pay"); (POnc 4, false, "Axfer");
    (POnc 5, false, "Pay"); (POnc 5, false, "Axfer");
    (PApp0, true, "Pay"); (PApp0, true, "Axfer");
    (PApp0, true, "ApplUpdateApplication"); (PApp0, true, "ApplDeleteApplication");
    (PAppBare, false, "Pay"); (PAppBare, false, "Axfer");
    (PAppBare, false, "ApplUpdateApplication"); (PAppBare, false, "ApplDeleteApplication") ]%N.

Theorem C07_dropped_table :
  filter (fun x => negb (preserved3 x)) all_triples = dropped_table.
Proof. vm_compute. reflexivity. Qed.

(* the same table with readable pattern names *)
Theorem C07_dropped_table_named :
  map triple_name (filter (fun x => negb (preserved3 x)) all_triples) =
  [ ("TypeEnum == pay", false, "ApplUpdateApplication");    ("TypeEnum == pay", false, "ApplDeleteApplication");
    ("TypeEnum == keyreg", false, "ApplUpdateApplication"); ("TypeEnum == keyreg", false, "ApplDeleteApplication");
    ("TypeEnum == acfg", false, "ApplUpdateApplication");   ("TypeEnum == acfg", false, "ApplDeleteApplication");
    ("TypeEnum == axfer", false, "ApplUpdateApplication");  ("TypeEnum == axfer", false, "ApplDeleteApplication");
    ("TypeEnum == afrz", false, "ApplUpdateApplication");   ("TypeEnum == afrz", false, "ApplDeleteApplication");
    ("TypeEnum == appl", true, "ApplUpdateApplication");    ("TypeEnum == appl", true, "ApplDeleteApplication");
    ("OnCompletion == NoOp", true, "Pay");                  ("OnCompletion == NoOp", true, "Axfer");
    ("OnCompletion == OptIn", false, "Pay");                ("OnCompletion == OptIn", false, "Axfer");
    ("OnCompletion == CloseOut", false, "Pay");             ("OnCompletion == CloseOut", false, "Axfer");
    ("OnCompletion == ClearState", false, "Pay");           ("OnCompletion == ClearState", false, "Axfer");
    ("OnCompletion == UpdateApplication", false, "Pay");    ("OnCompletion == UpdateApplication", false, "Axfer");
    ("OnCompletion == DeleteApplication", false, "Pay");    ("OnCompletion == DeleteApplication", false, "Axfer");
    ("ApplicationID == 0", true, "Pay");                    ("ApplicationID == 0", true, "Axfer");
    ("ApplicationID == 0", true, "ApplUpdateApplication");  ("ApplicationID == 0", true, "ApplDeleteApplication");
    ("ApplicationID (bare)", false, "Pay");                 ("ApplicationID (bare)", false, "Axfer");
    ("ApplicationID (bare)", false, "ApplUpdateApplication"); ("ApplicationID (bare)", false, "ApplDeleteApplication") ].
Proof. vm_compute. reflexivity. Qed.

Lemma all_triples_count : length all_triples = 112 /\ length dropped_table = 32.
Proof. split; vm_compute; reflexivity. Qed.

(* ====================================================================== *)
(* 3. Lifting the boolean check                                            *)
(* ====================================================================== *)

Lemma in_range_b_spec : forall t o a, in_range_b t o a = true <-> in_range t o a.
Proof.
  intros t o a. unfold in_range_b, in_range.
  rewrite !andb_true_iff, orb_true_iff, andb_true_iff, !N.leb_le, !N.eqb_eq.
  split.
  - intros [[[H1 H2] H3] H4]. repeat split; try assumption; destruct H4 as [H4|[H4 H5]]; congruence.
  - intros [[H1 H2] [H3 H4]]. repeat split; try assumption.
    destruct (N.eq_dec t 6) as [E|E]; [left; exact E | right; exact (H4 E)].
Qed.

Lemma norm_app_truth : forall p t o a, pattern_truth p t o (norm_app a) = pattern_truth p t o a.
Proof.
  intros p t o a. unfold norm_app.
  destruct p; simpl; try reflexivity; destruct (N.eqb a 0) eqn:E; simpl; reflexivity.
Qed.

Lemma norm_app_carries : forall t o a lab, carries t o (norm_app a) lab = carries t o a lab.
Proof. reflexivity. Qed.

Lemma norm_app_range : forall t o a, in_range t o a -> in_range t o (norm_app a).
Proof.
  intros t o a [H1 [H2 H3]]. repeat split; try apply H1; try exact H2; try (apply H3; assumption).
  unfold norm_app. destruct (H3 H) as [_ ->]. reflexivity.
Qed.

Lemma all_txns_complete : forall t o a, in_range t o a -> In (t, o, norm_app a) all_txns.
Proof.
  intros t o a H. unfold all_txns. apply filter_In. split.
  - apply in_flat_map. exists t. split.
    + destruct H as [[H1 H2] _].
      assert (t = 1 \/ t = 2 \/ t = 3 \/ t = 4 \/ t = 5 \/ t = 6)%N as Ht by lia.
      simpl. intuition.
    + apply in_flat_map. exists o. split.
      * destruct H as [_ [H2 _]].
        assert (o = 0 \/ o = 1 \/ o = 2 \/ o = 3 \/ o = 4 \/ o = 5)%N as Ho by lia.
        simpl. intuition.
      * apply in_map. unfold norm_app. destruct (N.eqb a 0); simpl; auto.
  - apply in_range_b_spec. apply norm_app_range. exact H.
Qed.

Lemma all_txns_sound : forall t o a, In (t, o, a) all_txns -> in_range t o a.
Proof.
  intros t o a H. unfold all_txns in H. apply filter_In in H. destruct H as [_ H].
  apply in_range_b_spec. exact H.
Qed.

Lemma preserved_sound : forall pat side lab, preserved pat side lab = true ->
  forall t o a, in_range t o a -> pattern_truth pat t o a = side -> carries t o a lab = true ->
  In lab (side_set pat side).
Proof.
  intros pat side lab Hp t o a Hr Ht Hc.
  unfold preserved in Hp. rewrite forallb_forall in Hp.
  specialize (Hp _ (all_txns_complete t o a Hr)). unfold obligation_b in Hp.
  rewrite norm_app_truth, norm_app_carries, Ht, Hc, eqb_reflx in Hp. simpl in Hp.
  apply smem_In. exact Hp.
Qed.

Lemma forallb_false_exists : forall (A : Type) (f : A -> bool) l,
  forallb f l = false -> exists x, In x l /\ f x = false.
Proof.
  intros A f l. induction l as [|x l IH]; simpl; intros H; [discriminate|].
  destruct (f x) eqn:E.
  - destruct (IH H) as [y [Hy Hf]]. exists y. auto.
  - exists x. auto.
Qed.

Lemma preserved_complete : forall pat side lab, preserved pat side lab = false ->
  exists t o a, in_range t o a /\ pattern_truth pat t o a = side /\ carries t o a lab = true /\
                ~ In lab (side_set pat side).
Proof.
  intros pat side lab Hp. unfold preserved in Hp.
  apply forallb_false_exists in Hp. destruct Hp as [[[t o] a] [Hin Hf]].
  exists t, o, a. split; [apply all_txns_sound; exact Hin|].
  unfold obligation_b in Hf.
  destruct (Bool.eqb (pattern_truth pat t o a) side) eqn:E1; simpl in Hf; [|discriminate].
  destruct (carries t o a lab) eqn:E2; simpl in Hf; [|discriminate].
  destruct (smem lab (side_set pat side)) eqn:E3; simpl in Hf; [discriminate|].
  split; [apply eqb_prop; exact E1|]. split; [reflexivity|].
  apply smem_false. exact E3.
Qed.

Lemma dropped_iff : forall x, In x dropped_table <-> In x all_triples /\ preserved3 x = false.
Proof.
  intros x. rewrite <- C07_dropped_table, filter_In, negb_true_iff. reflexivity.
Qed.

(* every obligation outside the dropped table holds *)
Theorem C07_preserved_partial : forall pat side lab,
  In (pat, side, lab) all_triples -> ~ In (pat, side, lab) dropped_table ->
  forall t o a, in_range t o a -> pattern_truth pat t o a = side -> carries t o a lab = true ->
  In lab (side_set pat side).
Proof.
  intros pat side lab Hin Hnd. apply preserved_sound.
  destruct (preserved pat side lab) eqn:E; [reflexivity|].
  exfalso. apply Hnd. apply dropped_iff. split; [exact Hin | exact E].
Qed.

(* every entry of the dropped table is really violated by some concrete transaction: the table is exact *)
Theorem C07_dropped_exact : forall pat side lab,
  In (pat, side, lab) dropped_table ->
  exists t o a, in_range t o a /\ pattern_truth pat t o a = side /\ carries t o a lab = true /\
                ~ In lab (side_set pat side).
Proof.
  intros pat side lab H. apply dropped_iff in H. destruct H as [_ H].
  apply preserved_complete. exact H.
Qed.

(* the unrestricted property is false: TypeEnum == appl, true side, an UpdateApplication call *)
Theorem C07_refuted :
  exists pat side lab t o a,
    In (pat, side, lab) all_triples /\ in_range t o a /\ pattern_truth pat t o a = side /\
    carries t o a lab = true /\ ~ In lab (side_set pat side).
Proof.
  exists (PType 6), true, "ApplUpdateApplication", 6%N, 4%N, 7%N.
  split.
  { apply (proj1 (dropped_iff _)). unfold dropped_table. do 10 right. left. reflexivity. }
  split; [apply in_range_b_spec; reflexivity|].
  split; [reflexivity|]. split; [reflexivity|].
  apply smem_false. vm_compute. reflexivity.
Qed.

(* the four labels are in the initial (universal) set, and "anything else" leaves return (ALL, ALL) *)
Lemma c07_labels_in_ALL : forall lab, In lab c07_labels -> In lab ALL_TRANSACTION_TYPES.
Proof.
  intros lab H. apply smem_In.
  assert (forallb (fun l => smem l ALL_TRANSACTION_TYPES) c07_labels = true) as F by (vm_compute; reflexivity).
  rewrite forallb_forall in F. exact (F lab H).
Qed.

(* ====================================================================== *)
(* 4. The sets of the table are the ones computed by [type_single]          *)
(* ====================================================================== *)

Definition txn_read (f : string) (p : nat) : sval := SKnown (ITxn (f, None)) p [] 0.
Definition int_const (c : N) (q : nat) : sval := SKnown (IInt (IANum c)) q [] 0.

Local Opaque transaction_type_to_tealer_type oncompletion_to_tealer_type ldiff
  ALL_TRANSACTION_TYPES TYPEENUM_TRANSACTION_TYPES APPLICATION_TRANSACTION_TYPES.

Lemma type_single_TypeEnum_eq : forall intcs c p q pos,
  type_single intcs KSelf IEq pos [txn_read "TypeEnum" p; int_const c q]
  = (side_set (PType c) true, side_set (PType c) false).
Proof.
  intros. unfold side_set, tf_pair, txn_read, int_const. cbn.
  destruct (transaction_type_to_tealer_type (IntNum c)); reflexivity.
Qed.

Lemma type_single_TypeEnum_neq : forall intcs c p q pos,
  type_single intcs KSelf INeq pos [txn_read "TypeEnum" p; int_const c q]
  = (side_set (PType c) false, side_set (PType c) true).
Proof.
  intros. unfold side_set, tf_pair, txn_read, int_const. cbn.
  destruct (transaction_type_to_tealer_type (IntNum c)); reflexivity.
Qed.

Lemma type_single_OnCompletion_eq : forall intcs c p q pos,
  type_single intcs KSelf IEq pos [txn_read "OnCompletion" p; int_const c q]
  = (side_set (POnc c) true, side_set (POnc c) false).
Proof.
  intros. unfold side_set, tf_pair, txn_read, int_const. cbn.
  destruct (oncompletion_to_tealer_type (IntNum c)); reflexivity.
Qed.

Lemma type_single_OnCompletion_neq : forall intcs c p q pos,
  type_single intcs KSelf INeq pos [txn_read "OnCompletion" p; int_const c q]
  = (side_set (POnc c) false, side_set (POnc c) true).
Proof.
  intros. unfold side_set, tf_pair, txn_read, int_const. cbn.
  destruct (oncompletion_to_tealer_type (IntNum c)); reflexivity.
Qed.

Local Transparent transaction_type_to_tealer_type oncompletion_to_tealer_type ldiff
  ALL_TRANSACTION_TYPES TYPEENUM_TRANSACTION_TYPES APPLICATION_TRANSACTION_TYPES.

Lemma type_single_AppID_eq0 : forall intcs p q pos,
  type_single intcs KSelf IEq pos [txn_read "ApplicationID" p; int_const 0 q]
  = (side_set PApp0 true, side_set PApp0 false).
Proof. intros. reflexivity. Qed.

Lemma type_single_AppID_neq0 : forall intcs p q pos,
  type_single intcs KSelf INeq pos [txn_read "ApplicationID" p; int_const 0 q]
  = (side_set PApp0 false, side_set PApp0 true).
Proof. intros. reflexivity. Qed.

Lemma type_single_AppID_bare : forall intcs pos args,
  type_single intcs KSelf (ITxn ("ApplicationID", None)) pos args
  = (side_set PAppBare true, side_set PAppBare false).
Proof. intros. reflexivity. Qed.

(* operand tree of a pattern, with the field on the left and the constant on the right *)
Definition pat_args (pat : pattern) (p q : nat) : list sval :=
  match pat with
  | PType c => [txn_read "TypeEnum" p; int_const c q]
  | POnc c => [txn_read "OnCompletion" p; int_const c q]
  | PApp0 => [txn_read "ApplicationID" p; int_const 0 q]
  | PAppBare => []
  end.
Definition pat_op (pat : pattern) (neg : bool) : instr :=
  match pat with
  | PAppBare => ITxn ("ApplicationID", None)
  | _ => if neg then INeq else IEq
  end.

Theorem type_single_side_set : forall intcs pat p q pos,
  type_single intcs KSelf (pat_op pat false) pos (pat_args pat p q)
  = (side_set pat true, side_set pat false).
Proof.
  intros intcs [c|c| |] p q pos; simpl.
  - apply type_single_TypeEnum_eq.
  - apply type_single_OnCompletion_eq.
  - apply type_single_AppID_eq0.
  - apply type_single_AppID_bare.
Qed.

Theorem type_single_side_set_neq : forall intcs pat p q pos, pat <> PAppBare ->
  type_single intcs KSelf (pat_op pat true) pos (pat_args pat p q)
  = (side_set pat false, side_set pat true).
Proof.
  intros intcs [c|c| |] p q pos H; simpl.
  - apply type_single_TypeEnum_neq.
  - apply type_single_OnCompletion_neq.
  - apply type_single_AppID_neq0.
  - congruence.
Qed.

(* C07_preserved_partial restated directly on the model's function *)
Corollary C07_type_single_preserved : forall intcs pat side lab p q pos,
  In (pat, side, lab) all_triples -> ~ In (pat, side, lab) dropped_table ->
  forall t o a, in_range t o a -> pattern_truth pat t o a = side -> carries t o a lab = true ->
  let tf := type_single intcs KSelf (pat_op pat false) pos (pat_args pat p q) in
  In lab (if side then fst tf else snd tf).
Proof.
  intros intcs pat side lab p q pos Hin Hnd t o a Hr Ht Hc tf. subst tf.
  rewrite type_single_side_set. simpl fst. simpl snd.
  exact (C07_preserved_partial pat side lab Hin Hnd t o a Hr Ht Hc).
Qed.

(* ====================================================================== *)
(* 5. Lattice step: lifting label membership through linter / lunion        *)
(* ====================================================================== *)

Lemma label_kept_linter : forall lab a b, In lab a -> In lab b -> In lab (linter a b).
Proof. intros lab a b Ha Hb. apply linter_In. split; assumption. Qed.

Lemma label_kept_lunion : forall lab a b, In lab a \/ In lab b -> In lab (lunion a b).
Proof. intros lab a b H. apply lunion_In. exact H. Qed.

Lemma label_kept_lunion_l : forall lab a b, In lab a -> In lab (lunion a b).
Proof. intros. apply label_kept_lunion. left. assumption. Qed.

Lemma label_kept_lunion_r : forall lab a b, In lab b -> In lab (lunion a b).
Proof. intros. apply label_kept_lunion. right. assumption. Qed.

(* conversely nothing new appears: the block set is exactly the meet / join *)
Lemma label_dropped_linter : forall lab a b, ~ In lab a \/ ~ In lab b -> ~ In lab (linter a b).
Proof. intros lab a b H Hin. apply linter_In in Hin. tauto. Qed.

(* a chain of intersections starting from a set containing the label *)
Lemma label_kept_fold_linter : forall lab ss U,
  In lab U -> Forall (fun s => In lab s) ss -> In lab (fold_left linter ss U).
Proof.
  intros lab ss. induction ss as [|s ss IH]; intros U HU HF; simpl; [exact HU|].
  inversion HF; subst. apply IH; [apply label_kept_linter; assumption | assumption].
Qed.

Lemma label_kept_fold_lunion : forall lab ss U,
  (In lab U \/ Exists (fun s => In lab s) ss) -> In lab (fold_left lunion ss U).
Proof.
  intros lab ss. induction ss as [|s ss IH]; intros U H; simpl.
  - destruct H as [H|H]; [exact H | inversion H].
  - apply IH. destruct H as [H|H].
    + left. apply label_kept_lunion_l. exact H.
    + inversion H; subst; [left; apply label_kept_lunion_r; assumption | right; assumption].
Qed.

(* a block whose set is the intersection, from ALL, of the side sets of non-dropped (pattern, side)
   pairs that all hold on a concrete transaction keeps every label carried by that transaction *)
Theorem C07_block_preserved : forall lab (conds : list (pattern * bool)) t o a,
  In lab c07_labels -> in_range t o a -> carries t o a lab = true ->
  Forall (fun ps => In (fst ps, snd ps, lab) all_triples /\ ~ In (fst ps, snd ps, lab) dropped_table /\
                    pattern_truth (fst ps) t o a = snd ps) conds ->
  In lab (fold_left linter (map (fun ps => side_set (fst ps) (snd ps)) conds) ALL_TRANSACTION_TYPES).
Proof.
  intros lab conds t o a Hl Hr Hc HF. apply label_kept_fold_linter.
  - apply c07_labels_in_ALL. exact Hl.
  - apply Forall_forall. intros s Hs. apply in_map_iff in Hs. destruct Hs as [[pat side] [<- Hin]].
    rewrite Forall_forall in HF. destruct (HF _ Hin) as [H1 [H2 H3]]. simpl in *.
    exact (C07_preserved_partial pat side lab H1 H2 t o a Hr H3 Hc).
Qed.

Print Assumptions C07_dropped_table.
Print Assumptions C07_dropped_table_named.
Print Assumptions C07_preserved_partial.
Print Assumptions C07_dropped_exact.
Print Assumptions C07_refuted.
Print Assumptions type_single_side_set.
Print Assumptions type_single_side_set_neq.
Print Assumptions C07_type_single_preserved.
Print Assumptions C07_block_preserved.
