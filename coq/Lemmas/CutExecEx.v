(* C12, semantic half: the shapes that refute the naive statements (Lemmas/CutExec.v has the theorems).

   1. cut_complete_naive_refuted   a loop that comes back to a path block: an approving execution of the contract
                                   whose first blocks are the dispatch path is not a run of the cut function
   2. cut_sound_prefix_needs_plain a path through a callsub block: the approving executions of the cut function
                                   visit the callee between the two path blocks
   3. cut_final_branch_no_artefact a conditional branch as last instruction of the program: since Spec/Exec.jump_ok
                                   reads "the branch targets the next line" off the jump target (not off the length
                                   of the program), the err instructions appended to the cut function's program do
                                   not create a fall-through execution (the former hypothesis final_branch_free of
                                   the soundness theorems is gone) *)
From Coq Require Import String List NArith ZArith Bool Arith Lia.
From Tealer Require Import Tables LeafPrelude Leaves Syntax Parse Cfg StackAst Keys Analysis Domains Detect Group.
From Tealer Require Import CfgLemmas SolverLemmas SubLemmas GraphWf GroupLemmas.
From Tealer Require Import StackLemmas Eval Runs RunLemmas Exec ExecLemmas CutExec.
Import ListNotations.
Open Scope string_scope.
Open Scope list_scope.

Definition dummy_teal : teal := mkTeal 0 MAny [] [] [] (mkSub "" 0 [] []) [] None.
Definition dummy_func : func := mkFunc [] [] 0 [] [] [] None.
Definition ex_env : env := mkEnv 1 0 (fun _ _ => VOther) "C" None.

Ltac nofail :=
  let pos := fresh "pos" in let args := fresh "args" in let outs := fresh "outs" in let op := fresh "op" in
  let Hin := fresh "Hin" in let Hop := fresh "Hop" in
  intros pos args outs op Hin Hop; simpl in Hin;
  repeat (destruct Hin as [Hin|Hin]; [inversion Hin; subst; vm_compute in Hop; inversion Hop; subst; reflexivity|]);
  contradiction.
Ltac bex := split; [vm_compute; reflexivity | nofail].
Ltac edge f := eapply (RS_edge f); [vm_compute; reflexivity | vm_compute; reflexivity | vm_compute; reflexivity | vm_compute; tauto].
Ltac brok := vm_compute; try reflexivity; try exact I; try (intros; reflexivity).

(* ================================================================== 1. a loop back into the path *)
(*   int 1 / top: bnz X / int 1; return / X: int 0; b top
     blocks 0 = [int 1], 1 = [top:; bnz X] -> {2, 3}, 2 = [int 1; return], 3 = [X:; int 0; b top] -> {1}.
     Dispatch path [0; 1; 3]: block 1 keeps the successor 3, its successor 2 becomes the err block 4.
     The execution 0 1 3 1 2 approves, starts with the path, and leaves block 1 towards 2 on its second visit. *)
Definition ex_reenter_prog : prog :=
  [ mkIns 1 (IInt (IANum 1)); mkIns 2 (ILabel "top"); mkIns 3 (IBNZ "X"); mkIns 4 (IInt (IANum 1)); mkIns 5 IReturn;
    mkIns 6 (ILabel "X"); mkIns 7 (IInt (IANum 0)); mkIns 8 (IB "top") ].
Definition ex_reenter_t : teal :=
  Eval vm_compute in match parse_teal ex_reenter_prog with Ok t => t | Err _ => dummy_teal end.
Definition ex_reenter_W : func := Eval vm_compute in whole_function ex_reenter_t.
Definition ex_reenter_f : func :=
  Eval vm_compute in match construct_function ex_reenter_t [0; 1; 3] with Ok (f, _) => f | Err _ => dummy_func end.
Definition ex_reenter_run : list rconfig := [(0, []); (1, []); (3, []); (1, []); (2, [])].

Lemma ex_reenter_parse : parse_teal ex_reenter_prog = Ok ex_reenter_t.
Proof. vm_compute. reflexivity. Qed.
Lemma ex_reenter_W_eq : whole_function ex_reenter_t = ex_reenter_W.
Proof. vm_compute. reflexivity. Qed.
Lemma ex_reenter_cf : construct_function ex_reenter_t [0; 1; 3] = Ok (ex_reenter_f, [(4, (2, 1))]).
Proof. vm_compute. reflexivity. Qed.

Lemma ex_reenter_plain : path_plain ex_reenter_t [0; 1; 3].
Proof.
  intros a b ab (pre & post & E) Hab.
  assert (Ha : a = 0 \/ a = 1).
  { destruct pre as [|x [|y [|z pre]]]; simpl in E; inversion E; subst; auto. destruct pre; discriminate. }
  destruct Ha as [-> | ->]; vm_compute in Hab; inversion Hab; subst; reflexivity.
Qed.

Lemma ex_reenter_accepts : Accepts ex_env (sem_ref ex_env) ex_reenter_W ex_reenter_run.
Proof.
  assert (Hex : Exec ex_env (sem_ref ex_env) ex_reenter_W ex_reenter_run).
  { unfold Exec, ex_reenter_run.
    eapply (EF_step _ _ _ _ (1, [])); [vm_compute; reflexivity | bex | edge ex_reenter_W | brok |].
    eapply (EF_step _ _ _ _ (3, [])); [vm_compute; reflexivity | bex | edge ex_reenter_W | brok |].
    eapply (EF_step _ _ _ _ (1, [])); [vm_compute; reflexivity | bex | edge ex_reenter_W | brok |].
    eapply (EF_step _ _ _ _ (2, [])); [vm_compute; reflexivity | bex | edge ex_reenter_W | brok |].
    eapply EF_last; [vm_compute; reflexivity | bex]. }
  split; [exact Hex|]. split; [|split].
  - split; [exact (Exec_Run _ _ _ _ Hex)|]. eexists. split; vm_compute; reflexivity.
  - reflexivity.
  - eexists. split; vm_compute; reflexivity.
Qed.

Lemma ex_reenter_not_run : ~ Run ex_reenter_f ex_reenter_run.
Proof.
  intros Hr.
  pose proof (RunFrom_step_at ex_reenter_f _ _ Hr [(0, []); (1, []); (3, [])] (1, []) (2, []) [] eq_refl) as Hs.
  inversion Hs as [b st0 blk l s Hb Hop Hfs|b st0 cs blk cb rp Hb Hop Hcs Hrp|b st0 blk b' Hb Hnc Hnr Hn]; subst.
  - vm_compute in Hb. inversion Hb; subst. vm_compute in Hop. discriminate.
  - vm_compute in Hb. inversion Hb; subst. vm_compute in Hn. intuition discriminate.
Qed.

(* the naive completeness statement: "every approving execution of the contract whose first |path| blocks are
   the path is a run of the cut function" *)
Theorem cut_complete_naive_refuted :
  exists p t path f' errs e sem cfgs,
    parse_teal p = Ok t /\ construct_function t path = Ok (f', errs) /\ path_plain t path /\
    sem_ok e sem /\ Accepts e sem (whole_function t) cfgs /\
    map fst (firstn (length path) cfgs) = path /\ ~ Run f' cfgs.
Proof.
  exists ex_reenter_prog, ex_reenter_t, [0; 1; 3], ex_reenter_f, [(4, (2, 1))], ex_env, (sem_ref ex_env), ex_reenter_run.
  split; [exact ex_reenter_parse|]. split; [exact ex_reenter_cf|]. split; [exact ex_reenter_plain|].
  split; [apply sem_ref_ok|]. split; [rewrite ex_reenter_W_eq; exact ex_reenter_accepts|].
  split; [reflexivity | exact ex_reenter_not_run].
Qed.
Print Assumptions cut_complete_naive_refuted.

(* ================================================================== 2. a path through a callsub block *)
(*   callsub f / int 1; return / f: retsub
     blocks 0 = [callsub f] -> {1}, 1 = [int 1; return], 2 = [f:; retsub] (subroutine f).
     The dispatch path [0; 1] is accepted (1 is the local successor of 0); nothing is cut.  The approving
     execution of the cut function is 0 2 1: its second block is the callee's, not the path's. *)
Definition ex_callpath_prog : prog :=
  [ mkIns 1 (ICallsub "f"); mkIns 2 (IInt (IANum 1)); mkIns 3 IReturn; mkIns 4 (ILabel "f"); mkIns 5 IRetsub ].
Definition ex_callpath_t : teal :=
  Eval vm_compute in match parse_teal ex_callpath_prog with Ok t => t | Err _ => dummy_teal end.
Definition ex_callpath_f : func :=
  Eval vm_compute in match construct_function ex_callpath_t [0; 1] with Ok (f, _) => f | Err _ => dummy_func end.
Definition ex_callpath_run : list rconfig := [(0, []); (2, [0]); (1, [])].

Lemma ex_callpath_parse : parse_teal ex_callpath_prog = Ok ex_callpath_t.
Proof. vm_compute. reflexivity. Qed.
Lemma ex_callpath_cf : construct_function ex_callpath_t [0; 1] = Ok (ex_callpath_f, []).
Proof. vm_compute. reflexivity. Qed.

Lemma ex_callpath_accepts : Accepts ex_env (sem_ref ex_env) ex_callpath_f ex_callpath_run.
Proof.
  assert (Hcall : rstep ex_callpath_f (0, []) (2, [0])).
  { assert (Hs : exists s, f_find_sub ex_callpath_f "f" = Some s /\ s_entry s = 2) by (eexists; split; vm_compute; reflexivity).
    destruct Hs as (s & Hs & He). rewrite <- He.
    eapply (RS_call ex_callpath_f 0 [] _ "f" s); [vm_compute; reflexivity | vm_compute; reflexivity | exact Hs]. }
  assert (Hret : rstep ex_callpath_f (2, [0]) (1, [])).
  { eapply (RS_ret ex_callpath_f 2 [] 0); vm_compute; reflexivity. }
  assert (Hex : Exec ex_env (sem_ref ex_env) ex_callpath_f ex_callpath_run).
  { unfold Exec, ex_callpath_run.
    eapply (EF_step _ _ _ _ (2, [0])); [vm_compute; reflexivity | bex | exact Hcall | brok |].
    eapply (EF_step _ _ _ _ (1, [])); [vm_compute; reflexivity | bex | exact Hret | brok |].
    eapply EF_last; [vm_compute; reflexivity | bex]. }
  split; [exact Hex|]. split; [|split].
  - split; [exact (Exec_Run _ _ _ _ Hex)|]. eexists. split; vm_compute; reflexivity.
  - reflexivity.
  - eexists. split; vm_compute; reflexivity.
Qed.

(* the naive prefix form of soundness: "every approving execution of the cut function begins with the path" *)
Theorem cut_sound_prefix_needs_plain :
  exists p t path f' errs e sem cfgs,
    parse_teal p = Ok t /\ construct_function t path = Ok (f', errs) /\
    sem_ok e sem /\ Accepts e sem f' cfgs /\
    length path <= length cfgs /\ map fst (firstn (length path) cfgs) <> path.
Proof.
  exists ex_callpath_prog, ex_callpath_t, [0; 1], ex_callpath_f, [], ex_env, (sem_ref ex_env), ex_callpath_run.
  split; [exact ex_callpath_parse|]. split; [exact ex_callpath_cf|].
  split; [apply sem_ref_ok|]. split; [exact ex_callpath_accepts|].
  split; [simpl; lia | simpl; discriminate].
Qed.
Print Assumptions cut_sound_prefix_needs_plain.

(* ================================================================== 3. a conditional branch ends the program *)
(*   int 1; bnz start / err / T: int 1; return / start: int 1; bz T        (bz T is the last instruction)
     blocks 0 -> {1, 3}, 1 = [err], 2 = [T: ...], 3 = [start: int 1; bz T] -> {2}.
     Spec/Exec.jump_ok lets block 3 reach block 2 only by jumping (bz T does not target the next line, so not
     jumping falls off the contract); bz pops 1 and does not jump, so 0 3 2 is no execution of the contract.  The
     cut function for [0; 3] has the err instruction of err block 4 appended to its program, so bz T is no longer
     the last instruction of fn_prog -- but 0 3 2 is still no execution of it, and the run 0 3 2 exists in both
     graphs. *)
Definition ex_lastbr_prog : prog :=
  [ mkIns 1 (IInt (IANum 1)); mkIns 2 (IBNZ "start"); mkIns 3 IErr; mkIns 4 (ILabel "T"); mkIns 5 (IInt (IANum 1));
    mkIns 6 IReturn; mkIns 7 (ILabel "start"); mkIns 8 (IInt (IANum 1)); mkIns 9 (IBZ "T") ].
Definition ex_lastbr_t : teal :=
  Eval vm_compute in match parse_teal ex_lastbr_prog with Ok t => t | Err _ => dummy_teal end.
Definition ex_lastbr_W : func := Eval vm_compute in whole_function ex_lastbr_t.
Definition ex_lastbr_f : func :=
  Eval vm_compute in match construct_function ex_lastbr_t [0; 3] with Ok (f, _) => f | Err _ => dummy_func end.
Definition ex_lastbr_run : list rconfig := [(0, []); (3, []); (2, [])].

Lemma ex_lastbr_parse : parse_teal ex_lastbr_prog = Ok ex_lastbr_t.
Proof. vm_compute. reflexivity. Qed.
Lemma ex_lastbr_W_eq : whole_function ex_lastbr_t = ex_lastbr_W.
Proof. vm_compute. reflexivity. Qed.
Lemma ex_lastbr_cf : construct_function ex_lastbr_t [0; 3] = Ok (ex_lastbr_f, [(4, (1, 0))]).
Proof. vm_compute. reflexivity. Qed.

Lemma ex_lastbr_plain : path_plain ex_lastbr_t [0; 3].
Proof.
  intros a b ab (pre & post & E) Hab.
  assert (Ha : a = 0).
  { destruct pre as [|x [|y pre]]; simpl in E; inversion E; subst; auto. destruct pre; discriminate. }
  subst a. vm_compute in Hab. inversion Hab; subst. reflexivity.
Qed.

Lemma ex_lastbr_run_f : Run ex_lastbr_f ex_lastbr_run.
Proof.
  unfold Run, ex_lastbr_run.
  eapply (RF_step _ _ (3, [])); [edge ex_lastbr_f|]. eapply (RF_step _ _ (2, [])); [edge ex_lastbr_f|]. constructor.
Qed.

Lemma ex_lastbr_not_exec_f : ~ Exec ex_env (sem_ref ex_env) ex_lastbr_f ex_lastbr_run.
Proof.
  unfold Exec, ex_lastbr_run. intros H.
  inversion H as [|c c' rest cs blk tr cs' Hb [Hc Hnf] Hstep Hbr Hrest]; subst.
  vm_compute in Hb. inversion Hb; subst blk. vm_compute in Hc. inversion Hc; subst tr cs'.
  inversion Hrest as [|c2 c2' rest2 cs2 blk2 tr2 cs2' Hb2 [Hc2 Hnf2] Hstep2 Hbr2 Hrest2]; subst.
  vm_compute in Hb2. inversion Hb2; subst blk2. vm_compute in Hc2. inversion Hc2; subst tr2 cs2'.
  clear Hrest2. vm_compute in Hbr2. specialize (Hbr2 eq_refl). discriminate Hbr2.
Qed.

Lemma ex_lastbr_not_exec : ~ Exec ex_env (sem_ref ex_env) ex_lastbr_W ex_lastbr_run.
Proof.
  unfold Exec, ex_lastbr_run. intros H.
  inversion H as [|c c' rest cs blk tr cs' Hb [Hc Hnf] Hstep Hbr Hrest]; subst.
  vm_compute in Hb. inversion Hb; subst blk. vm_compute in Hc. inversion Hc; subst tr cs'.
  inversion Hrest as [|c2 c2' rest2 cs2 blk2 tr2 cs2' Hb2 [Hc2 Hnf2] Hstep2 Hbr2 Hrest2]; subst.
  vm_compute in Hb2. inversion Hb2; subst blk2. vm_compute in Hc2. inversion Hc2; subst tr2 cs2'.
  clear Hrest2. vm_compute in Hbr2. specialize (Hbr2 eq_refl). discriminate Hbr2.
Qed.

Theorem cut_final_branch_no_artefact :
  exists p t path f' errs e sem cfgs,
    parse_teal p = Ok t /\ construct_function t path = Ok (f', errs) /\ path_plain t path /\
    sem_ok e sem /\ Run f' cfgs /\ ~ Exec e sem f' cfgs /\ ~ Exec e sem (whole_function t) cfgs.
Proof.
  exists ex_lastbr_prog, ex_lastbr_t, [0; 3], ex_lastbr_f, [(4, (1, 0))], ex_env, (sem_ref ex_env), ex_lastbr_run.
  split; [exact ex_lastbr_parse|]. split; [exact ex_lastbr_cf|]. split; [exact ex_lastbr_plain|].
  split; [apply sem_ref_ok|]. split; [exact ex_lastbr_run_f|]. split; [exact ex_lastbr_not_exec_f|].
  rewrite ex_lastbr_W_eq. exact ex_lastbr_not_exec.
Qed.
Print Assumptions cut_final_branch_no_artefact.

(* ================================================================== 4. the hypotheses of the prefix forms are satisfiable *)
(* the same contract and execution as in 1., dispatch path [0; 1]: the execution 0 1 3 1 2 starts with the path
   and never comes back to block 0, so cutfun_accepts_complete_prefix applies *)
Definition ex_reenter_f01 : func :=
  Eval vm_compute in match construct_function ex_reenter_t [0; 1] with Ok (f, _) => f | Err _ => dummy_func end.

Example cut_complete_prefix_applies : Accepts ex_env (sem_ref ex_env) ex_reenter_f01 ex_reenter_run.
Proof.
  assert (Hcf : construct_function ex_reenter_t [0; 1] = Ok (ex_reenter_f01, [])) by (vm_compute; reflexivity).
  apply (cutfun_accepts_complete_prefix ex_reenter_prog ex_reenter_t [0; 1] ex_reenter_f01 [] ex_reenter_parse Hcf).
  - intros a b ab (pre & post & E) Hab.
    assert (Ha : a = 0).
    { destruct pre as [|x [|y pre]]; simpl in E; inversion E; subst; auto. destruct pre; discriminate. }
    subst a. vm_compute in Hab. inversion Hab; subst. reflexivity.
  - rewrite ex_reenter_W_eq. exact ex_reenter_accepts.
  - split; [reflexivity|]. intros j c Hj Hlen Hin. simpl in Hin. destruct Hin as [Hin|[]].
    destruct j as [|[|[|[|[|j]]]]]; simpl in Hj, Hlen; try lia;
      try (inversion Hj as [Hc]; rewrite <- Hc in Hin; simpl in Hin; discriminate Hin).
    destruct j; discriminate Hj.
Qed.
Print Assumptions cut_complete_prefix_applies.
