(* Lemmas/YamlRelLemmas.v -- the configuration-file reading of `relative_indexes` (Model/Group.v yaml_rel / yaml_txn, used
   by Driver.handle_group) against the REGENERATED GroupConfigTransaction.from_yaml (Gen/GroupInitGen.v), for every
   listing.  Closes the discrepancy recorded by GroupInitGenLemmas.yaml_rel_model_refuted: the model's request now goes
   through the same "last offset per id, then last id per offset" reading as the code. *)
From Coq Require Import List String NArith ZArith Bool Arith Lia.
From Tealer Require Import Tables Leaves LeafPrelude Syntax Parse Cfg StackAst Keys KeysGen Analysis Domains Detect Group SearchGen GroupGen GroupInitGen GroupLemmas GroupGenLemmas GroupInitGenLemmas.
Import ListNotations.
Open Scope string_scope.

Lemma sdict_put_is_sdict_set : forall k v d, sdict_put k v d = sdict_set k v d.
Proof.
  intros k v d. unfold sdict_set. induction d as [|[k' v'] t IH]; cbn [sdict_put GroupGen.dict_set]; [reflexivity|].
  destruct (k' =? k)%string; [reflexivity|]. rewrite IH. reflexivity.
Qed.

Definition yentries (l : list (Z * string)) : list yv := map (fun '(off, id) => yrel id off) l.

(* the loop of from_yaml over the listed entries: never raises on well-formed entries and builds yaml_dict *)
Definition rel_loop_body (st : (list string * list (string * Z))%type) (relative_index : yv) : rs (list string * list (string * Z)) :=
  let '(absent_fields, parsed_relative_indexes) := st in
  rbind (as_map relative_index) (fun m =>
  rbind (check_fields_are_present_gen ["other_txn_id"; "offset"] m) (fun absent =>
  if (match absent with [] => false | _ => true end) then Raise (EInvalid "Transaction: {}\n\nFollowing Required fields are absent in relative_indexes: {}")
  else rbind (sdict_get "offset" m) (fun o => rbind (sdict_get "other_txn_id" m) (fun i =>
       rbind (as_str i) (fun i' => rbind (as_int o) (fun o' => Ok (absent, sdict_set i' o' parsed_relative_indexes))))))).

Lemma rel_loop_step : forall a d id off,
  rel_loop_body (a, d) (yrel id off) = Ok ([], sdict_set id off d).
Proof. intros. vm_compute. reflexivity. Qed.

Lemma rel_loop_fold : forall l a d,
  exists a', foldE rel_loop_body (yentries l) (a, d) = Ok (a', fold_left (fun d '(off, id) => sdict_put id off d) l d).
Proof.
  induction l as [|[off id] t IH]; intros a d; cbn [yentries map foldE fold_left].
  - exists a. reflexivity.
  - fold (yentries t). rewrite rel_loop_step. cbn [rbind]. rewrite sdict_put_is_sdict_set. apply IH.
Qed.

Lemma foldE_rel : forall (f : (list string * list (string * Z))%type -> yv -> rs (list string * list (string * Z))),
  (forall a d id off, f (a, d) (yrel id off) = Ok ([], sdict_set id off d)) ->
  forall l a d, exists a', foldE f (yentries l) (a, d) = Ok (a', fold_left (fun d '(off, id) => sdict_put id off d) l d).
Proof.
  intros f Hf. induction l as [|[off id] t IH]; intros a d; cbn [yentries map foldE fold_left].
  - exists a. reflexivity.
  - fold (yentries t). rewrite Hf. cbn [rbind]. rewrite sdict_put_is_sdict_set. apply IH.
Qed.

(* from_yaml on a transaction entry that lists relative_indexes: for EVERY listing the dict it builds is yaml_dict *)
Theorem from_yaml_relative_indexes : forall tid l,
  GroupConfigTransaction_from_yaml_gen [("txn_id", YStr tid); ("txn_type", YStr "pay"); ("relative_indexes", YList (yentries l))]
  = Ok (mkGroupConfigTransaction tid "pay" None None None None (Some (yaml_dict l))).
Proof.
  intros tid l. unfold GroupConfigTransaction_from_yaml_gen.
  match goal with |- context [foldE ?f _ _] => destruct (foldE_rel f (fun a d id off => eq_refl) l [] []) as [a' Hfold] end.
  cbn. cbn in Hfold. rewrite Hfold. cbn. reflexivity.
Qed.

(* ---- the dict built by from_yaml has distinct keys, so walking it gives exactly Model/Group.yaml_rel *)
Lemma sdict_put_keys : forall k v d, In k (map fst (sdict_put k v d)) /\ (forall k', In k' (map fst (sdict_put k v d)) <-> (k' = k \/ In k' (map fst d))).
Proof.
  intros k v d. induction d as [|[k0 v0] t [IH1 IH2]]; cbn [sdict_put map fst In].
  - split; [left; reflexivity|]. intros k'. split; intros [H|H]; auto; try contradiction. 
  - destruct (k0 =? k)%string eqn:E; cbn [map fst In].
    + apply String.eqb_eq in E. subst k0. split; [left; reflexivity|]. intros k'. split; intros H; intuition (subst; auto).
    + split; [right; exact IH1|]. intros k'. rewrite IH2. tauto.
Qed.

Lemma sdict_put_nodup : forall k v d, NoDup (map fst d) -> NoDup (map fst (sdict_put k v d)).
Proof.
  intros k v d. induction d as [|[k0 v0] t IH]; cbn [sdict_put map fst]; intros Hnd.
  - constructor; [intros []|constructor].
  - inversion Hnd as [|? ? Hnin Hnd']; subst. destruct (k0 =? k)%string eqn:E; cbn [map fst].
    + constructor; assumption.
    + constructor; [|apply IH; exact Hnd'].
      intros Hin. apply (proj2 (sdict_put_keys k v t)) in Hin. destruct Hin as [Hk|Hin]; [|exact (Hnin Hin)].
      subst k0. rewrite String.eqb_refl in E. discriminate.
Qed.

Lemma yaml_dict_nodup_from : forall l d, NoDup (map fst d) -> NoDup (map fst (fold_left (fun d '(off, id) => sdict_put id off d) l d)).
Proof.
  induction l as [|[off id] t IH]; intros d Hd; cbn [fold_left]; [exact Hd|]. apply IH. apply sdict_put_nodup. exact Hd.
Qed.
Lemma yaml_dict_nodup : forall l, NoDup (map fst (yaml_dict l)).
Proof. intros l. unfold yaml_dict. apply yaml_dict_nodup_from. constructor. Qed.

Lemma zlookup_first : forall k v t, zlookup k ((k, v) :: t) = v.
Proof. intros. unfold zlookup. cbn [find fst]. rewrite String.eqb_refl. reflexivity. Qed.
Lemma zlookup_skip : forall k k0 v0 t, k0 <> k -> zlookup k ((k0, v0) :: t) = zlookup k t.
Proof. intros k k0 v0 t H. unfold zlookup. cbn [find fst]. destruct (String.eqb_spec k0 k); [contradiction|reflexivity]. Qed.

Lemma walk_nodup_dict : forall r : list (string * Z), NoDup (map fst r) ->
  map (fun oid => (zlookup oid r, oid)) (GroupGen.dict_keys r) = map (fun '(id, off) => (off, id)) r.
Proof.
  intros r. unfold GroupGen.dict_keys.
  assert (H : forall pre, NoDup (map fst (pre ++ r)%list) -> (forall k, In k (map fst r) -> zlookup k (pre ++ r)%list = zlookup k r) ->
              map (fun oid => (zlookup oid (pre ++ r)%list, oid)) (map fst r) = map (fun '(id, off) => (off, id)) r).
  { induction r as [|[k v] t IH]; intros pre Hnd Hlk; cbn [map fst]; [reflexivity|].
    f_equal.
    - rewrite Hlk by (left; reflexivity). rewrite zlookup_first. reflexivity.
    - specialize (IH (pre ++ [(k, v)])%list). rewrite <- app_assoc in IH. cbn [app] in IH. apply IH; [exact Hnd|].
      intros k' Hin. rewrite Hlk by (right; exact Hin). apply zlookup_skip.
      intros ->. rewrite map_app in Hnd. apply NoDup_remove_2 in Hnd. apply Hnd. apply in_or_app. right. exact Hin. }
  intros Hnd. apply (H [] Hnd). intros; reflexivity.
Qed.

(* the model record of an entry read by from_yaml from the listing l carries exactly Group.yaml_rel l *)
Theorem cfg_rel_pairs_yaml : forall tid ty app hl ls ab l,
  cfg_rel_pairs (mkGroupConfigTransaction tid ty app hl ls ab (Some (yaml_dict l))) = yaml_rel l.
Proof. intros. unfold cfg_rel_pairs, yaml_rel. cbn. apply walk_nodup_dict. apply yaml_dict_nodup. Qed.

(* end to end for the listing: the entry that the REGENERATED from_yaml builds from the file's listing l, read as a model
   record (GroupInitGenLemmas.cfg_gtxn, proved equal to the objects the regenerated init_tealer_from_config creates), has the
   relative indexes of Driver.handle_group's reading `rel_dict (yaml_txn t)` of a request transaction t with g_rel t = l *)
Theorem from_yaml_then_init_reads_yaml_txn : forall cs tid l e,
  GroupConfigTransaction_from_yaml_gen [("txn_id", YStr tid); ("txn_type", YStr "pay"); ("relative_indexes", YList (yentries l))] = Ok e ->
  g_rel (cfg_gtxn cs e) = rel_dict (yaml_txn (mkTxn tid "Pay" false None None None l)).
Proof.
  intros cs tid l e He. rewrite from_yaml_relative_indexes in He. injection He as <-.
  unfold cfg_gtxn, normalize. cbn [g_rel]. unfold rel_dict at 1. unfold raw_gtxn. cbn [g_rel].
  rewrite cfg_rel_pairs_yaml. reflexivity.
Qed.

(* the discrepancy of GroupInitGenLemmas.yaml_rel_model_refuted is gone with yaml_txn: same listing, same reading *)
Example yaml_txn_example :
  rel_dict (yaml_txn (mkTxn "a" "Pay" false None None None [(1%Z, "b"); (2%Z, "c"); (2%Z, "b")])) = [(2%Z, "c")].
Proof. vm_compute. reflexivity. Qed.
Print Assumptions from_yaml_then_init_reads_yaml_txn.
