(* C13, first half, SEMANTIC side: the group-mode verdict (Model/Group.v txn_vulnerable / group_verdict) never
   misses a transaction that can carry the dangerous value in a concrete group consistent with the configuration.

   A. concrete groups ([cgroup]), the envs of its members ([views], [same_group]), approval ([approves]),
      consistency of a concrete group with a configuration ([consistent])
   B. "cleared ... at every accepting exit" in the model: [checks_its_field_exits], [checks_abs_exits],
      [checks_rel_exits], [own_cleared_exits], [abs_cleared_exits], [rel_cleared_exits]
   C. the detector-independent core: if every approving execution of a member leaves the blocks it visits
      unchecked for the key family through which it reads t, then t is reported ([core_vulnerable])
   D. missing-fee-check: [group_ok], [group_fee_no_miss], [group_fee_verdict], [group_fee_cleared_sound],
      [driver_fee_instance]
   E. rekey-to (partial: address hypotheses of NoMiss.C01_rekey_no_miss_partial): [group_rekey_no_miss_partial]
   F. witness: a two-transaction group satisfying all hypotheses, and the tool's verdicts on it *)
From Coq Require Import String List NArith ZArith Bool Arith Lia.
From Tealer Require Import Tables LeafPrelude Leaves Syntax Parse Cfg StackAst Keys Analysis Domains Detect Group Driver.
From Tealer Require Import Runs Eval Exec LeafLemmas SingleLemmas SolverLemmas ExecLemmas NoMiss GroupLemmas.
Import ListNotations.
Open Scope string_scope.
Open Scope list_scope.

(* ====================================================================== *)
(* A. concrete groups consistent with a configuration                      *)
(* ====================================================================== *)
(* a concrete transaction group: its size and the field values of its members *)
Record cgroup := mkCG { cg_size : N; cg_field : N -> string -> value }.

(* [e] is the group G as seen by the program run by the member at position [own] *)
Definition views (G : cgroup) (own : N) (e : env) : Prop :=
  e_size e = cg_size G /\ e_own e = own /\
  forall i fld, (i < cg_size G)%N -> e_field e i fld = cg_field G i fld.

(* two envs of the same concrete group: same size, same field values of the members *)
Definition same_group (e e' : env) : Prop :=
  e_size e = e_size e' /\ forall i fld, (i < e_size e)%N -> e_field e i fld = e_field e' i fld.

Lemma views_same_group G o o' e e' : views G o e -> views G o' e' -> same_group e e'.
Proof.
  intros (Hs & _ & Hf) (Hs' & _ & Hf'). split; [congruence|].
  intros i fld Hi. rewrite Hs in Hi. rewrite (Hf i fld Hi), (Hf' i fld Hi). reflexivity.
Qed.

Lemma same_group_views e e' : same_group e e' -> views (mkCG (e_size e) (e_field e)) (e_own e') e'.
Proof.
  intros [Hs Hf]. split; [symmetry; exact Hs|]. split; [reflexivity|].
  intros i fld Hi. cbn [cg_size cg_field] in *. symmetry. apply Hf. exact Hi.
Qed.

(* the transaction runs function number k of the table (as its logic-sig or as its application) *)
Definition runs (t : gtxn) (k : nat) : Prop := g_logic_sig t = Some k \/ g_application t = Some k.

(* the member at position [own] of G running f approves: some execution of f in (an env of) G accepts.
   [fn_intcs f = e_intcs e]: the env carries the constant block of the contract being run. *)
Definition approves_with (Q : env -> Prop) (G : cgroup) (own : N) (f : func) : Prop :=
  exists e sem cfgs, views G own e /\ env_ok e /\ sem_ok e sem /\ fn_intcs f = e_intcs e /\ Accepts e sem f cfgs /\ Q e.
Definition approves : cgroup -> N -> func -> Prop := approves_with (fun _ => True).

Lemma approves_iff G own f :
  approves G own f <->
  exists e sem cfgs, views G own e /\ env_ok e /\ sem_ok e sem /\ fn_intcs f = e_intcs e /\ Accepts e sem f cfgs.
Proof.
  unfold approves, approves_with. split.
  - intros (e & sem & cfgs & H1 & H2 & H3 & H4 & H5 & _). exists e, sem, cfgs. auto.
  - intros (e & sem & cfgs & H1 & H2 & H3 & H4 & H5). exists e, sem, cfgs. auto 6.
Qed.

(* G, with the configured transactions placed by [posn] (by transaction id), is consistent with the
   configuration and every configured contract approves.
   Sign convention (transactions.py: t1.relative_indexes[-1] = t2 => t2.group_index() == t1.group_index() - 1):
   an entry (off, oid) of t's relative indexes places oid at  posn t + off. *)
(* [Q t k e]: an optional side condition on the env of the approving execution of function k by t (used by
   the partial rekey-to theorem only; [consistent] is the instance without side condition) *)
Record consistent_with (Q : gtxn -> nat -> env -> Prop)
       (funcs : list (func * fn_result)) (group : list gtxn) (G : cgroup) (posn : string -> N) : Prop := {
  c_ids : NoDup (map g_id group);
  c_pos : forall t, In t group -> (posn (g_id t) < cg_size G)%N;
  c_abs : forall t i, In t group -> g_abs t = Some i -> posn (g_id t) = i;
  c_rel : forall t off oid, In t group -> In (off, oid) (rel_dict t) ->
            Z.of_N (posn oid) = (Z.of_N (posn (g_id t)) + off)%Z;
  c_approve : forall t k f r, In t group -> runs t k -> nth_error funcs k = Some (f, r) ->
            approves_with (Q t k) G (posn (g_id t)) f }.
Definition consistent : list (func * fn_result) -> list gtxn -> cgroup -> (string -> N) -> Prop :=
  consistent_with (fun _ _ _ => True).

(* [consistent], spelled out *)
Lemma consistent_iff funcs group G posn :
  consistent funcs group G posn <->
  NoDup (map g_id group) /\
  (forall t, In t group -> (posn (g_id t) < cg_size G)%N) /\
  (forall t i, In t group -> g_abs t = Some i -> posn (g_id t) = i) /\
  (forall t off oid, In t group -> In (off, oid) (rel_dict t) -> Z.of_N (posn oid) = (Z.of_N (posn (g_id t)) + off)%Z) /\
  (forall t k f r, In t group -> runs t k -> nth_error funcs k = Some (f, r) -> approves G (posn (g_id t)) f).
Proof.
  split.
  - intros [H1 H2 H3 H4 H5]. auto 6.
  - intros (H1 & H2 & H3 & H4 & H5). constructor; assumption.
Qed.

(* stated on the configured list g_rel (every listed entry holds) instead of on the dict *)
Lemma consistent_of_g_rel funcs group G posn :
  NoDup (map g_id group) ->
  (forall t, In t group -> (posn (g_id t) < cg_size G)%N) ->
  (forall t i, In t group -> g_abs t = Some i -> posn (g_id t) = i) ->
  (forall t off oid, In t group -> In (off, oid) (g_rel t) -> Z.of_N (posn oid) = (Z.of_N (posn (g_id t)) + off)%Z) ->
  (forall t k f r, In t group -> runs t k -> nth_error funcs k = Some (f, r) -> approves G (posn (g_id t)) f) ->
  consistent funcs group G posn.
Proof.
  intros H1 H2 H3 H4 H5. apply consistent_iff. repeat split; auto.
  intros t off oid Ht Hin. apply (H4 t off oid Ht). apply rel_dict_In_g_rel. exact Hin.
Qed.

(* ====================================================================== *)
(* B. "cleared": the value is excluded at every exit                       *)
(* ====================================================================== *)
Lemma checks_its_field_exits funcs checks k abs f r :
  nth_error funcs k = Some (f, r) ->
  (checks_its_field funcs checks k abs = true <->
   forall b, fn_leaf_block f b -> validated_in_block r checks abs b = true).
Proof.
  intros E. unfold checks_its_field. rewrite E, forallb_forall. split.
  - intros H b Hb. apply H. apply fn_leaves_In. exact Hb.
  - intros H b Hb. apply H. apply fn_leaves_In. exact Hb.
Qed.

Lemma checks_abs_exits funcs checks k i f r :
  nth_error funcs k = Some (f, r) ->
  (checks_abs funcs checks k i = true <->
   forall b, fn_leaf_block f b -> checks (ctx_of r b (KAbs i)) = true).
Proof.
  intros E. unfold checks_abs. rewrite E, forallb_forall. split.
  - intros H b Hb. apply H. apply fn_leaves_In. exact Hb.
  - intros H b Hb. apply H. apply fn_leaves_In. exact Hb.
Qed.

Lemma checks_rel_exits funcs checks k off f r :
  nth_error funcs k = Some (f, r) ->
  (checks_rel funcs checks k off = true <->
   forall b, fn_leaf_block f b -> checks (ctx_of r b (KRel off)) = true).
Proof.
  intros E. unfold checks_rel. rewrite E, forallb_forall. split.
  - intros H b Hb. apply H. apply fn_leaves_In. exact Hb.
  - intros H b Hb. apply H. apply fn_leaves_In. exact Hb.
Qed.

(* a function number outside the table never clears *)
Lemma checks_none funcs checks k :
  nth_error funcs k = None ->
  (forall abs, checks_its_field funcs checks k abs = false) /\
  (forall i, checks_abs funcs checks k i = false) /\ (forall off, checks_rel funcs checks k off = false).
Proof.
  intros E. unfold checks_its_field, checks_abs, checks_rel. rewrite E. auto.
Qed.

(* what "validated" means at one exit: the own context excludes the value, or the context of the configured
   absolute index does, or (no index configured) the context of every index the program may run at does *)
Lemma validated_in_block_iff r checks abs b :
  validated_in_block r checks abs b = true <->
  checks (ctx_of r b KSelf) = true \/
  match abs with
  | Some i => checks (ctx_of r b (KAtIndex i)) = true
  | None => forall i, In i (ctx_group_indices (ctx_of r b KSelf)) -> checks (ctx_of r b (KAtIndex (Z.to_N i))) = true
  end.
Proof.
  unfold validated_in_block. destruct (checks (ctx_of r b KSelf)); [tauto|].
  destruct abs as [i|]; [intuition discriminate|]. rewrite forallb_forall. intuition discriminate.
Qed.

(* the three clearing conditions of GroupLemmas, unfolded to the exits of the clearing function *)
Theorem own_cleared_exits funcs checks t :
  own_cleared funcs checks t <->
  exists k f r, runs t k /\ nth_error funcs k = Some (f, r) /\
    forall b, fn_leaf_block f b -> validated_in_block r checks (g_abs t) b = true.
Proof.
  unfold own_cleared, runs. split.
  - intros [(k & Ek & H)|(k & Ek & H)];
      (destruct (nth_error funcs k) as [[f r]|] eqn:E;
       [|rewrite (proj1 (checks_none funcs checks k E)) in H; discriminate]);
      exists k, f, r; rewrite (checks_its_field_exits funcs checks k _ f r E) in H; auto.
  - intros (k & f & r & [Ek|Ek] & E & H); [left | right]; exists k; (split; [exact Ek|]);
      apply (checks_its_field_exits funcs checks k _ f r E); exact H.
Qed.

Theorem abs_cleared_exits funcs checks group t :
  abs_cleared funcs checks group t <->
  exists i other k f r, g_abs t = Some i /\ In other group /\ runs other k /\ nth_error funcs k = Some (f, r) /\
    forall b, fn_leaf_block f b -> checks (ctx_of r b (KAbs i)) = true.
Proof.
  unfold abs_cleared, runs. split.
  - intros (i & other & Ei & Ho & [(k & Ek & H)|(k & Ek & H)]);
      (destruct (nth_error funcs k) as [[f r]|] eqn:E;
       [|rewrite (proj1 (proj2 (checks_none funcs checks k E))) in H; discriminate]);
      exists i, other, k, f, r; rewrite (checks_abs_exits funcs checks k i f r E) in H; auto 6.
  - intros (i & other & k & f & r & Ei & Ho & [Ek|Ek] & E & H); exists i, other; (split; [exact Ei|]);
      (split; [exact Ho|]); [left | right]; exists k; (split; [exact Ek|]);
      apply (checks_abs_exits funcs checks k i f r E); exact H.
Qed.

Theorem rel_cleared_exits funcs checks group t :
  rel_cleared funcs checks group t <->
  exists oid off other k f r, In (oid, off) (relative_accessors group t) /\
    find (fun o => String.eqb (g_id o) oid) group = Some other /\ runs other k /\ nth_error funcs k = Some (f, r) /\
    forall b, fn_leaf_block f b -> checks (ctx_of r b (KRel off)) = true.
Proof.
  unfold rel_cleared, runs. split.
  - intros (oid & off & other & Hin & Hf & [(k & Ek & H)|(k & Ek & H)]);
      (destruct (nth_error funcs k) as [[f r]|] eqn:E;
       [|rewrite (proj2 (proj2 (checks_none funcs checks k E))) in H; discriminate]);
      exists oid, off, other, k, f, r; rewrite (checks_rel_exits funcs checks k off f r E) in H; auto 6.
  - intros (oid & off & other & k & f & r & Hin & Hf & [Ek|Ek] & E & H); exists oid, off, other;
      (split; [exact Hin|]); (split; [exact Hf|]); [left | right]; exists k; (split; [exact Ek|]);
      apply (checks_rel_exits funcs checks k off f r E); exact H.
Qed.

(* C13, "cleared when": a transaction is not reported as soon as one of its own contracts validates every exit,
   or a member's contract excludes the value at every exit in the context of t's configured absolute index, or
   (distinct ids) a member whose last relative index pointing to t is [off] does so in the context of [off] *)
Theorem cleared_when_exits funcs checks dtype vtypes group t :
  (exists k f r, runs t k /\ nth_error funcs k = Some (f, r) /\
     forall b, fn_leaf_block f b -> validated_in_block r checks (g_abs t) b = true) \/
  (exists i other k f r, g_abs t = Some i /\ In other group /\ runs other k /\ nth_error funcs k = Some (f, r) /\
     forall b, fn_leaf_block f b -> checks (ctx_of r b (KAbs i)) = true) \/
  (NoDup (map g_id group) /\
   exists other off k f r, In other group /\ last_pointing (rel_dict other) (g_id t) off /\ runs other k /\
     nth_error funcs k = Some (f, r) /\
     forall b, fn_leaf_block f b -> checks (ctx_of r b (KRel off)) = true) ->
  txn_vulnerable funcs checks dtype vtypes group t = false.
Proof.
  intros H. apply not_vulnerable_iff. right. destruct H as [H|[H|[Hnd H]]].
  - left. apply own_cleared_exits. exact H.
  - right. left. apply abs_cleared_exits. exact H.
  - right. right. apply rel_cleared_exits.
    destruct H as (other & off & k & f & r & Ho & Hl & Hk & E & H).
    exists (g_id other), off, other, k, f, r. split.
    + apply relative_accessors_spec; [exact Hnd|]. exists other. auto.
    + split; [apply find_by_id; assumption|]. auto.
Qed.

(* for missing-fee-check, "the context excludes the value": the recorded bound is at most MAX_TRANSACTION_COST
   (or is the `unknown` element, which the tool takes to be bounded by it) *)
Lemma fee_check_true_iff r b fam :
  checks_missing_fee_check (ctx_of r b fam) = true <->
  fee_unknown (res_fee r fam b) = true \/ (fee_value (res_fee r fam b) <= MAX_TRANSACTION_COSTz)%Z.
Proof.
  unfold checks_missing_fee_check, ctx_of. cbn [ctx_max_fee_unknown ctx_max_fee].
  destruct (fee_unknown (res_fee r fam b)); cbn [orb]; [tauto|]. rewrite Z.leb_le. intuition discriminate.
Qed.

(* ====================================================================== *)
(* C. the detector-independent core                                        *)
(* ====================================================================== *)
Lemma last_In {A} (d : A) : forall l, l <> [] -> In (last l d) l.
Proof.
  induction l as [|a l IH]; intros H; [congruence|]. destruct l as [|a' l]; [left; reflexivity|].
  right. apply IH. discriminate.
Qed.

(* an accepting execution ends at (a block that is) an exit of the function *)
Lemma accepts_final_leaf e sem f cfgs :
  Accepts e sem f cfgs -> exists b st, In (b, st) cfgs /\ fn_leaf_block f b.
Proof.
  intros (_ & (Hrun & blk & Hb & Hl) & _).
  assert (Hne : cfgs <> []) by (inversion Hrun; discriminate).
  pose proof (last_In (fn_entry f, []) cfgs Hne) as Hin. change (In (final f cfgs) cfgs) in Hin.
  destruct (final f cfgs) as [b st]. cbn [fst] in Hb.
  exists b, st. split; [exact Hin|]. exists blk. split; [exact (fblock_In f b blk Hb)|].
  split; [exact Hl | exact (fblock_idx f b blk Hb)].
Qed.

(* the key families a member o uses to read a member of the group: its own two, the configured absolute
   indices, and the offsets of o's relative indexes *)
Definition fam_used (group : list gtxn) (posn : string -> N) (o : gtxn) (fam : keyfam) : Prop :=
  fam = KSelf \/ fam = KAtIndex (posn (g_id o)) \/
  (exists t i, In t group /\ g_abs t = Some i /\ fam = KAbs i) \/
  (exists t off, In t group /\ In (off, g_id t) (rel_dict o) /\ fam = KRel off).

(* the detector's check fails in the context of every block of the run *)
Definition unchecked (checks : bctx -> bool) (r : fn_result) (fam : keyfam) (cfgs : list rconfig) : Prop :=
  forall b st, In (b, st) cfgs -> checks (ctx_of r b fam) = false.

Lemma member_of_N e (p : N) j : (p < e_size e)%N -> j = Z.of_N p -> member e j = Some p.
Proof.
  intros Hp ->. unfold member.
  assert (H1 : (0 <=? Z.of_N p)%Z = true) by (apply Z.leb_le; lia).
  assert (H2 : (Z.of_N p <? Z.of_N (e_size e))%Z = true) by (apply Z.ltb_lt; lia).
  rewrite H1, H2. cbn [andb]. rewrite N2Z.id. reflexivity.
Qed.

Section Core.
  Variable funcs : list (func * fn_result).
  Variable checks : bctx -> bool.
  Variable dtype : string.
  Variable vtypes : option (list string).
  Variable group : list gtxn.
  Variable G : cgroup.
  Variable posn : string -> N.
  Variable Q : gtxn -> nat -> env -> Prop.
  Hypothesis Hcons : consistent_with Q funcs group G posn.
  Variable t : gtxn.
  Hypothesis Ht : In t group.

  (* the dangerous value of t defeats the check along every approving execution of a member o, in the context
     of any family through which o's program reads the member at t's position *)
  Hypothesis Hdefeat : forall o k f r e sem cfgs fam,
    In o group -> runs o k -> nth_error funcs k = Some (f, r) ->
    views G (posn (g_id o)) e -> env_ok e -> sem_ok e sem -> fn_intcs f = e_intcs e -> Accepts e sem f cfgs ->
    Q o k e -> fam_used group posn o fam -> key_txn e fam = Some (posn (g_id t)) ->
    unchecked checks r fam cfgs.
  (* the index t's own program runs at is among the indices recorded for the blocks of its runs *)
  Hypothesis Hindex : forall k f r e sem cfgs,
    runs t k -> nth_error funcs k = Some (f, r) ->
    views G (posn (g_id t)) e -> env_ok e -> sem_ok e sem -> fn_intcs f = e_intcs e -> Accepts e sem f cfgs ->
    Q t k e ->
    forall b st, In (b, st) cfgs -> In (Z.of_N (e_own e)) (ctx_group_indices (ctx_of r b KSelf)).

  Lemma core_own_k k : runs t k -> checks_its_field funcs checks k (g_abs t) = false.
  Proof.
    intros Hk. destruct (checks_its_field funcs checks k (g_abs t)) eqn:Hc; [exfalso | reflexivity].
    destruct (nth_error funcs k) as [[f r]|] eqn:E;
      [|rewrite (proj1 (checks_none funcs checks k E)) in Hc; discriminate].
    rewrite (checks_its_field_exits funcs checks k _ f r E) in Hc.
    destruct (c_approve _ _ _ _ _ Hcons t k f r Ht Hk E) as (e & sem & cfgs & Hv & Hok & Hsem & Hi & Hacc & HQ).
    destruct (accepts_final_leaf e sem f cfgs Hacc) as (b & st & Hin & Hleaf).
    specialize (Hc b Hleaf). pose proof Hv as (Hsz & Hown & _).
    assert (Hself : checks (ctx_of r b KSelf) = false).
    { refine (Hdefeat t k f r e sem cfgs KSelf Ht Hk E Hv Hok Hsem Hi Hacc HQ (or_introl eq_refl) _ b st Hin).
      cbn [key_txn]. rewrite Hown. reflexivity. }
    assert (Hat : checks (ctx_of r b (KAtIndex (posn (g_id t)))) = false).
    { refine (Hdefeat t k f r e sem cfgs _ Ht Hk E Hv Hok Hsem Hi Hacc HQ (or_intror (or_introl eq_refl)) _ b st Hin).
      cbn [key_txn]. rewrite Hown, N.eqb_refl. reflexivity. }
    apply validated_in_block_iff in Hc. destruct Hc as [Hc|Hc]; [congruence|].
    destruct (g_abs t) as [i|] eqn:Ea.
    - rewrite <- (c_abs _ _ _ _ _ Hcons t i Ht Ea) in Hc. congruence.
    - pose proof (Hindex k f r e sem cfgs Hk E Hv Hok Hsem Hi Hacc HQ b st Hin) as Hidx.
      specialize (Hc _ Hidx). rewrite N2Z.id, Hown in Hc. congruence.
  Qed.

  Lemma core_own : ~ own_cleared funcs checks t.
  Proof.
    intros [(k & Ek & H)|(k & Ek & H)].
    - rewrite (core_own_k k (or_introl Ek)) in H. discriminate.
    - rewrite (core_own_k k (or_intror Ek)) in H. discriminate.
  Qed.

  Lemma core_abs_k i other k :
    g_abs t = Some i -> In other group -> runs other k -> checks_abs funcs checks k i = false.
  Proof.
    intros Ea Ho Hk. destruct (checks_abs funcs checks k i) eqn:Hc; [exfalso | reflexivity].
    destruct (nth_error funcs k) as [[f r]|] eqn:E;
      [|rewrite (proj1 (proj2 (checks_none funcs checks k E))) in Hc; discriminate].
    rewrite (checks_abs_exits funcs checks k i f r E) in Hc.
    destruct (c_approve _ _ _ _ _ Hcons other k f r Ho Hk E) as (e & sem & cfgs & Hv & Hok & Hsem & Hi & Hacc & HQ).
    destruct (accepts_final_leaf e sem f cfgs Hacc) as (b & st & Hin & Hleaf).
    specialize (Hc b Hleaf). pose proof Hv as (Hsz & Hown & _).
    pose proof (c_abs _ _ _ _ _ Hcons t i Ht Ea) as Hp. pose proof (c_pos _ _ _ _ _ Hcons t Ht) as Hlt.
    assert (Hf : checks (ctx_of r b (KAbs i)) = false).
    { refine (Hdefeat other k f r e sem cfgs (KAbs i) Ho Hk E Hv Hok Hsem Hi Hacc HQ _ _ b st Hin).
      - right. right. left. exists t, i. auto.
      - cbn [key_txn]. rewrite Hsz, <- Hp. rewrite (proj2 (N.ltb_lt _ _) Hlt). reflexivity. }
    congruence.
  Qed.

  Lemma core_abs : ~ abs_cleared funcs checks group t.
  Proof.
    intros (i & other & Ea & Ho & [(k & Ek & H)|(k & Ek & H)]).
    - rewrite (core_abs_k i other k Ea Ho (or_introl Ek)) in H. discriminate.
    - rewrite (core_abs_k i other k Ea Ho (or_intror Ek)) in H. discriminate.
  Qed.

  Lemma core_rel_k other off k :
    In other group -> In (off, g_id t) (rel_dict other) -> runs other k -> checks_rel funcs checks k off = false.
  Proof.
    intros Ho Hrel Hk. destruct (checks_rel funcs checks k off) eqn:Hc; [exfalso | reflexivity].
    destruct (nth_error funcs k) as [[f r]|] eqn:E;
      [|rewrite (proj2 (proj2 (checks_none funcs checks k E))) in Hc; discriminate].
    rewrite (checks_rel_exits funcs checks k off f r E) in Hc.
    destruct (c_approve _ _ _ _ _ Hcons other k f r Ho Hk E) as (e & sem & cfgs & Hv & Hok & Hsem & Hi & Hacc & HQ).
    destruct (accepts_final_leaf e sem f cfgs Hacc) as (b & st & Hin & Hleaf).
    specialize (Hc b Hleaf). pose proof Hv as (Hsz & Hown & _).
    pose proof (c_rel _ _ _ _ _ Hcons other off (g_id t) Ho Hrel) as Hp. pose proof (c_pos _ _ _ _ _ Hcons t Ht) as Hlt.
    assert (Hf : checks (ctx_of r b (KRel off)) = false).
    { refine (Hdefeat other k f r e sem cfgs (KRel off) Ho Hk E Hv Hok Hsem Hi Hacc HQ _ _ b st Hin).
      - right. right. right. exists t, off. auto.
      - cbn [key_txn]. apply member_of_N; [rewrite Hsz; exact Hlt|]. rewrite Hown. symmetry. exact Hp. }
    congruence.
  Qed.

  Lemma core_rel : ~ rel_cleared funcs checks group t.
  Proof.
    intros (oid & off & other & Hin & Hfind & Hc).
    destruct (relative_accessors_sound group t oid off Hin) as (other' & Ho' & Hid & Hrel).
    pose proof (find_by_id group other' (c_ids _ _ _ _ _ Hcons) Ho') as Hf'. rewrite Hid, Hfind in Hf'.
    inversion Hf'; subst other'. clear Hf'.
    destruct Hc as [(k & Ek & H)|(k & Ek & H)].
    - rewrite (core_rel_k other off k Ho' Hrel (or_introl Ek)) in H. discriminate.
    - rewrite (core_rel_k other off k Ho' Hrel (or_intror Ek)) in H. discriminate.
  Qed.

  Theorem core_vulnerable :
    eligible dtype vtypes t -> txn_vulnerable funcs checks dtype vtypes group t = true.
  Proof.
    intros He. apply vulnerable_iff. split; [exact He|]. split; [exact core_own|].
    split; [exact core_abs | exact core_rel].
  Qed.
End Core.

(* ====================================================================== *)
(* D. missing-fee-check                                                    *)
(* ====================================================================== *)
(* hypotheses of the fee analysis' soundness (ExecLemmas.run_all_fee_sound) for every function run by a member:
   the result in the table is the tool's output, the graph is well formed, the leaves are in the fragment for
   the key families the member uses; the D2 exclusion for GroupSize/GroupIndex comparisons *)
Record group_ok (funcs : list (func * fn_result)) (group : list gtxn) (posn : string -> N) : Prop := {
  go_run : forall o k f r, In o group -> runs o k -> nth_error funcs k = Some (f, r) ->
             exists fuel, run_all f fuel = Done r;
  go_graph : forall o k f r, In o group -> runs o k -> nth_error funcs k = Some (f, r) -> graph_ok f;
  go_sizes : forall o k f r, In o group -> runs o k -> nth_error funcs k = Some (f, r) -> int_leaves_ok f true;
  go_index : forall o k f r, In o group -> runs o k -> nth_error funcs k = Some (f, r) -> int_leaves_ok f false;
  go_fee : forall o k f r fam, In o group -> runs o k -> nth_error funcs k = Some (f, r) ->
             fam_used group posn o fam -> fee_leaves_ok f fam }.

Lemma eligible_stateless t : g_has_logic_sig t = true -> eligible "STATELESS" None t.
Proof.
  intros H. split; [|split].
  - intros [_ E]. congruence.
  - intros [E _]. discriminate.
  - intros l E. discriminate.
Qed.

Section Fee.
  Variable funcs : list (func * fn_result).
  Variable group : list gtxn.
  Variable G : cgroup.
  Variable posn : string -> N.
  Hypothesis Hcons : consistent funcs group G posn.
  Hypothesis Hok : group_ok funcs group posn.
  Variable t : gtxn.
  Hypothesis Ht : In t group.
  Variable fee : Z.
  Hypothesis Hfee : cg_field G (posn (g_id t)) "Fee" = VInt fee.
  Hypothesis Hr : (MAX_TRANSACTION_COSTz < fee <= MAX_UINT64z)%Z.

  Lemma fee_defeat o k f r e sem cfgs fam :
    In o group -> runs o k -> nth_error funcs k = Some (f, r) ->
    views G (posn (g_id o)) e -> env_ok e -> sem_ok e sem -> fn_intcs f = e_intcs e -> Accepts e sem f cfgs ->
    True -> fam_used group posn o fam -> key_txn e fam = Some (posn (g_id t)) ->
    unchecked checks_missing_fee_check r fam cfgs.
  Proof.
    intros Ho Hk E Hv Heok Hsem Hi Hacc _ Hfam Hkey b st Hin.
    destruct (go_run _ _ _ Hok o k f r Ho Hk E) as [fuel Hrun].
    pose proof (go_graph _ _ _ Hok o k f r Ho Hk E) as Hg.
    pose proof MAX_TC_nonneg as H0.
    assert (Hr' : (0 <= fee <= MAX_UINT64z)%Z) by lia.
    assert (Hfe : e_field e (posn (g_id t)) "Fee" = VInt fee).
    { destruct Hv as (_ & _ & Hf). rewrite (Hf _ _ (c_pos _ _ _ _ _ Hcons t Ht)). exact Hfee. }
    apply (fee_check_false r b fam fee (proj1 Hr)).
    apply res_fee_gamma; [exact (proj2 Hr)|]. intros l Hl.
    refine (run_all_fee_sound e sem f fuel r fam l (posn (g_id t)) fee cfgs Hsem Heok Hi Hg Hrun Hl Hkey Hfe Hr'
              (go_fee _ _ _ Hok o k f r fam Ho Hk E Hfam) _ Hacc b st Hin).
    destruct fam as [|i|i|off]; try exact I.
    split; [exact (go_fee _ _ _ Hok o k f r KSelf Ho Hk E (or_introl eq_refl))|].
    split; [exact (go_sizes _ _ _ Hok o k f r Ho Hk E) | exact (go_index _ _ _ Hok o k f r Ho Hk E)].
  Qed.

  Lemma fee_index k f r e sem cfgs :
    runs t k -> nth_error funcs k = Some (f, r) ->
    views G (posn (g_id t)) e -> env_ok e -> sem_ok e sem -> fn_intcs f = e_intcs e -> Accepts e sem f cfgs ->
    True ->
    forall b st, In (b, st) cfgs -> In (Z.of_N (e_own e)) (ctx_group_indices (ctx_of r b KSelf)).
  Proof.
    intros Hk E Hv Heok Hsem Hi Hacc _.
    destruct (go_run _ _ _ Hok t k f r Ht Hk E) as [fuel Hrun].
    exact (own_index_listed e sem f fuel r cfgs Hsem Heok Hi (go_graph _ _ _ Hok t k f r Ht Hk E)
             (go_sizes _ _ _ Hok t k f r Ht Hk E) (go_index _ _ _ Hok t k f r Ht Hk E) Hrun Hacc).
  Qed.

  (* no clearing condition can hold *)
  Theorem group_fee_not_cleared :
    ~ own_cleared funcs checks_missing_fee_check t /\
    ~ abs_cleared funcs checks_missing_fee_check group t /\
    ~ rel_cleared funcs checks_missing_fee_check group t.
  Proof.
    split; [|split].
    - exact (core_own funcs _ group G posn _ Hcons t Ht fee_defeat fee_index).
    - exact (core_abs funcs _ group G posn _ Hcons t Ht fee_defeat).
    - exact (core_rel funcs _ group G posn _ Hcons t Ht fee_defeat).
  Qed.

  (* for any detector type / vulnerable-type list the transaction is eligible for *)
  Theorem group_fee_no_miss_gen dtype vtypes :
    eligible dtype vtypes t ->
    txn_vulnerable funcs checks_missing_fee_check dtype vtypes group t = true.
  Proof. exact (core_vulnerable funcs _ dtype vtypes group G posn _ Hcons t Ht fee_defeat fee_index). Qed.
End Fee.

(* C13, first half, for missing-fee-check as the driver instantiates it (STATELESS, no type restriction):
   if some concrete group consistent with the configuration is approved by every configured contract while the
   transaction t (which has a logic-sig) pays more than MAX_TRANSACTION_COST, then t is reported *)
Theorem group_fee_no_miss funcs group G posn t fee :
  consistent funcs group G posn -> group_ok funcs group posn ->
  In t group -> g_has_logic_sig t = true ->
  cg_field G (posn (g_id t)) "Fee" = VInt fee -> (MAX_TRANSACTION_COSTz < fee <= MAX_UINT64z)%Z ->
  txn_vulnerable funcs checks_missing_fee_check "STATELESS" None group t = true.
Proof.
  intros Hcons Hok Ht Hls Hfee Hr.
  exact (group_fee_no_miss_gen funcs group G posn Hcons Hok t Ht fee Hfee Hr "STATELESS" None (eligible_stateless t Hls)).
Qed.

Corollary group_fee_verdict funcs group G posn t fee :
  consistent funcs group G posn -> group_ok funcs group posn ->
  In t group -> g_has_logic_sig t = true ->
  cg_field G (posn (g_id t)) "Fee" = VInt fee -> (MAX_TRANSACTION_COSTz < fee <= MAX_UINT64z)%Z ->
  In (g_id t) (group_verdict funcs checks_missing_fee_check "STATELESS" None group).
Proof.
  intros Hcons Hok Ht Hls Hfee Hr. apply group_verdict_spec. exists t. split; [exact Ht|]. split; [reflexivity|].
  exact (group_fee_no_miss funcs group G posn t fee Hcons Hok Ht Hls Hfee Hr).
Qed.

(* the contrapositive, "cleared" read semantically: a transaction the verdict does not list pays at most
   MAX_TRANSACTION_COST in every consistent concrete group that all configured contracts approve *)
Corollary group_fee_cleared_sound funcs group G posn t fee :
  consistent funcs group G posn -> group_ok funcs group posn ->
  In t group -> g_has_logic_sig t = true ->
  txn_vulnerable funcs checks_missing_fee_check "STATELESS" None group t = false ->
  cg_field G (posn (g_id t)) "Fee" = VInt fee -> (fee <= MAX_UINT64z)%Z ->
  (fee <= MAX_TRANSACTION_COSTz)%Z.
Proof.
  intros Hcons Hok Ht Hls Hv Hfee Hr.
  destruct (Z.le_gt_cases fee MAX_TRANSACTION_COSTz) as [H|H]; [exact H|]. exfalso.
  rewrite (group_fee_no_miss funcs group G posn t fee Hcons Hok Ht Hls Hfee (conj H Hr)) in Hv. discriminate.
Qed.

(* this is the instance computed by Driver.handle_group *)
Lemma driver_fee_instance :
  In ("missing-fee-check", checks_missing_fee_check) group_checks /\
  Parse.assoc "missing-fee-check" detector_table = Some ("STATELESS", None).
Proof.
  split; [|reflexivity]. unfold group_checks, detectors. cbn [filter String.eqb Ascii.eqb Bool.eqb negb].
  simpl. auto 10.
Qed.

(* ====================================================================== *)
(* E. rekey-to (partial)                                                   *)
(* ====================================================================== *)
(* the domain-independent part of group_ok *)
Record group_base_ok (funcs : list (func * fn_result)) (group : list gtxn) : Prop := {
  gb_run : forall o k f r, In o group -> runs o k -> nth_error funcs k = Some (f, r) ->
             exists fuel, run_all f fuel = Done r;
  gb_graph : forall o k f r, In o group -> runs o k -> nth_error funcs k = Some (f, r) -> graph_ok f;
  gb_sizes : forall o k f r, In o group -> runs o k -> nth_error funcs k = Some (f, r) -> int_leaves_ok f true;
  gb_index : forall o k f r, In o group -> runs o k -> nth_error funcs k = Some (f, r) -> int_leaves_ok f false }.

Lemma group_ok_base funcs group posn : group_ok funcs group posn -> group_base_ok funcs group.
Proof. intros [H1 H2 H3 H4 _]. constructor; assumption. Qed.

(* the address hypotheses of NoMiss.C01_rekey_no_miss_partial, for the env of an approving execution of
   function k by member o: the leaves are in the fragment of the address analysis (ExecLemmas.addr_leaves_ok:
   D19, creator literal) for the families o uses, and the tool's output for RekeyTo never names the address *)
Definition rekey_side (funcs : list (func * fn_result)) (group : list gtxn) (posn : string -> N) (a : string)
           (o : gtxn) (k : nat) (e : env) : Prop :=
  forall f r, nth_error funcs k = Some (f, r) ->
    (forall fam, fam_used group posn o fam -> addr_leaves_ok e f fam "RekeyTo") /\
    fresh_in r "RekeyTo" (abs_name e a).

Section Rekey.
  Variable funcs : list (func * fn_result).
  Variable group : list gtxn.
  Variable G : cgroup.
  Variable posn : string -> N.
  Variable a : string.
  Hypothesis Hcons : consistent_with (rekey_side funcs group posn a) funcs group G posn.
  Hypothesis Hok : group_base_ok funcs group.
  Variable t : gtxn.
  Hypothesis Ht : In t group.
  Hypothesis Hfld : cg_field G (posn (g_id t)) "RekeyTo" = VAddr a.
  Hypothesis Hz : a <> "ZERO".
  Hypothesis Hm : is_marker a = false.

  Lemma rekey_defeat o k f r e sem cfgs fam :
    In o group -> runs o k -> nth_error funcs k = Some (f, r) ->
    views G (posn (g_id o)) e -> env_ok e -> sem_ok e sem -> fn_intcs f = e_intcs e -> Accepts e sem f cfgs ->
    rekey_side funcs group posn a o k e -> fam_used group posn o fam -> key_txn e fam = Some (posn (g_id t)) ->
    unchecked checks_rekey_to r fam cfgs.
  Proof.
    intros Ho Hk E Hv Heok Hsem Hi Hacc HQ Hfam Hkey b st Hin.
    destruct (HQ f r E) as [Hl Hfr].
    destruct (gb_run _ _ Hok o k f r Ho Hk E) as [fuel Hrun].
    pose proof (gb_graph _ _ Hok o k f r Ho Hk E) as Hg.
    assert (Hfe : e_field e (posn (g_id t)) "RekeyTo" = VAddr a).
    { destruct Hv as (_ & _ & Hf). rewrite (Hf _ _ (c_pos _ _ _ _ _ Hcons t Ht)). exact Hfld. }
    assert (H1 : addr_gamma (res_addr r "RekeyTo" fam b) (abs_name e a)).
    { apply res_addr_gamma; [exact (abs_name_not_marker e a Hm)|]. intros l Hl'.
      refine (run_all_addr_sound_partial e sem f fuel r "RekeyTo" fam l (posn (g_id t)) a cfgs Hsem Heok Hi Hg Hrun
                Hl' Hkey Hfe Hz Hm (Hl fam Hfam) _ Hacc b st Hin).
      destruct fam as [|i|i|off]; try exact I.
      split; [exact (Hl KSelf (or_introl eq_refl))|].
      split; [exact (gb_sizes _ _ Hok o k f r Ho Hk E) | exact (gb_index _ _ Hok o k f r Ho Hk E)]. }
    unfold checks_rekey_to, ctx_of. cbn [ctx_rekeyto].
    rewrite (addr_any_true r "RekeyTo" fam b _ Hfr H1). reflexivity.
  Qed.

  Lemma rekey_index k f r e sem cfgs :
    runs t k -> nth_error funcs k = Some (f, r) ->
    views G (posn (g_id t)) e -> env_ok e -> sem_ok e sem -> fn_intcs f = e_intcs e -> Accepts e sem f cfgs ->
    rekey_side funcs group posn a t k e ->
    forall b st, In (b, st) cfgs -> In (Z.of_N (e_own e)) (ctx_group_indices (ctx_of r b KSelf)).
  Proof.
    intros Hk E Hv Heok Hsem Hi Hacc _.
    destruct (gb_run _ _ Hok t k f r Ht Hk E) as [fuel Hrun].
    exact (own_index_listed e sem f fuel r cfgs Hsem Heok Hi (gb_graph _ _ Hok t k f r Ht Hk E)
             (gb_sizes _ _ Hok t k f r Ht Hk E) (gb_index _ _ Hok t k f r Ht Hk E) Hrun Hacc).
  Qed.

  Theorem group_rekey_no_miss_partial :
    g_has_logic_sig t = true ->
    txn_vulnerable funcs checks_rekey_to "STATELESS" None group t = true.
  Proof.
    intros Hls.
    exact (core_vulnerable funcs _ "STATELESS" None group G posn _ Hcons t Ht rekey_defeat rekey_index
             (eligible_stateless t Hls)).
  Qed.
End Rekey.

Lemma driver_rekey_instance :
  In ("rekey-to", checks_rekey_to) group_checks /\
  Parse.assoc "rekey-to" detector_table = Some ("STATELESS", None).
Proof.
  split; [|reflexivity]. unfold group_checks, detectors. simpl. auto 10.
Qed.

Print Assumptions own_cleared_exits.
Print Assumptions abs_cleared_exits.
Print Assumptions rel_cleared_exits.
Print Assumptions cleared_when_exits.
Print Assumptions core_vulnerable.
Print Assumptions group_fee_not_cleared.
Print Assumptions group_fee_no_miss.
Print Assumptions group_fee_verdict.
Print Assumptions group_fee_cleared_sound.
Print Assumptions driver_fee_instance.
Print Assumptions group_rekey_no_miss_partial.
Print Assumptions driver_rekey_instance.

(* ====================================================================== *)
(* F. non-vacuity and the tool's verdicts on small groups                  *)
(* ====================================================================== *)
(* F1. Two transactions T1 (configured at absolute index 0) and T2 (whose relative index -1 is T1), both signed by
   the logic-sig of NoMissWitness:   txn Fee; int 1000000; <=; bz fail; int 1; return; fail: err
   and the concrete group of two members paying 500000 each and rekeying to "X".  All hypotheses of
   group_fee_no_miss and of group_rekey_no_miss_partial hold, for both transactions. *)
Module GroupWitness.
  Import NoMissWitness.

  Definition T1 : gtxn := mkTxn "T1" "Pay" true (Some 0) None (Some 0%N) [].
  Definition T2 : gtxn := mkTxn "T2" "Pay" true (Some 0) None None [((-1)%Z, "T1")].
  Definition grp : list gtxn := [T1; T2].
  Definition funcs1 : list (func * fn_result) := [(f1, res1)].
  Definition fld2 : N -> string -> value :=
    fun _ fld => if fld =? "Fee" then VInt 500000 else if fld =? "RekeyTo" then VAddr "X" else VOther.
  Definition G2 : cgroup := mkCG 2 fld2.
  Definition posn2 : string -> N := fun id => if id =? "T2" then 1%N else 0%N.
  Definition env2 (own : N) : env := mkEnv 2 own fld2 "C" None.

  Lemma in_grp t : In t grp -> t = T1 \/ t = T2.
  Proof. intros [<-|[<-|[]]]; auto. Qed.

  Lemma runs_grp t k f r : In t grp -> runs t k -> nth_error funcs1 k = Some (f, r) -> k = 0 /\ f = f1 /\ r = res1.
  Proof.
    intros Ht Hk E. apply in_grp in Ht.
    assert (k = 0) as -> by (destruct Ht; subst t; destruct Hk as [Hk|Hk]; cbn in Hk; congruence).
    cbn in E. inversion E. auto.
  Qed.

  Lemma w2_env_ok own : (own < 2)%N -> env_ok (env2 own).
  Proof. intros H. split; cbn [e_size e_own env2]; lia. Qed.

  Lemma w2_no_fail e tr poss : (forall pos args outs, In (pos, args, outs) tr -> In (pos, args, outs) poss) ->
    Forall (fun '(pos, args, _) => forall op, op_at p1 pos = Some op -> fails e op args = false) poss ->
    no_fail e p1 tr.
  Proof.
    intros Hi HF pos args outs op Hin Hop. rewrite Forall_forall in HF.
    exact (HF _ (Hi _ _ _ Hin) op Hop).
  Qed.

  Lemma w2_accepts own : Accepts (env2 own) (sem_ref (env2 own)) f1 run1.
  Proof.
    split; [|split; [|split]].
    - unfold Exec, run1.
      apply (EF_step (env2 own) (sem_ref (env2 own)) f1 (0, []) (1, []) [(1, [])] [] B0
               [(0, [], [CInt 500000]); (1, [], [CInt 1000000]); (2, [CInt 500000; CInt 1000000], [CInt 1]); (3, [CInt 1], [])] []).
      + reflexivity.
      + split; [vm_compute; reflexivity|].
        eapply w2_no_fail; [intros pos args outs H; exact H|].
        repeat constructor; intros op Hop; vm_compute in Hop; inversion Hop; subst; reflexivity.
      + apply (RS_edge f1 0 [] B0 1); [reflexivity|reflexivity|reflexivity|simpl; auto].
      + reflexivity.
      + apply (EF_last (env2 own) (sem_ref (env2 own)) f1 (1, []) [] B1 [(4, [], [CInt 1]); (5, [CInt 1], [])] []).
        * reflexivity.
        * split; [vm_compute; reflexivity|].
          eapply w2_no_fail; [intros pos args outs H; exact H|].
          repeat constructor; intros op Hop; vm_compute in Hop; inversion Hop; subst; reflexivity.
    - split; [exact w_run|]. exists B1. split; reflexivity.
    - reflexivity.
    - exists B1. split; reflexivity.
  Qed.

  Lemma w2_views own : views G2 own (env2 own).
  Proof. split; [reflexivity|]. split; reflexivity. Qed.

  Ltac leaf2 H := apply f1_leaves in H; destruct H as [H|H]; inversion H; subst; clear H.
  Ltac cc2 := intros x y E; inversion E; subst; clear E;
              split; intros H; first [reflexivity | vm_compute in H; discriminate H].

  (* the leaves of f1 are in the fragment for every key family *)
  Lemma w2_fee_leaves fam : fee_leaves_ok f1 fam.
  Proof. intros op pos args Hp. leaf2 Hp; (split; [|reflexivity]); destruct fam; cc2. Qed.

  Lemma w2_addr_leaves e fam : addr_leaves_ok e f1 fam "RekeyTo".
  Proof.
    intros op pos args Hp.
    leaf2 Hp; (split; [destruct fam; cc2 | split; [|split; [|reflexivity]]]);
      intros v lit Hin Hlit; simpl in Hin; intuition (subst; discriminate Hlit).
  Qed.

  Lemma w2_approves_with (Q : env -> Prop) own : (own < 2)%N -> Q (env2 own) -> approves_with Q G2 own f1.
  Proof.
    intros Hlt HQ. exists (env2 own), (sem_ref (env2 own)), run1.
    split; [exact (w2_views own)|]. split; [exact (w2_env_ok own Hlt)|]. split; [apply sem_ref_ok|].
    split; [reflexivity|]. split; [exact (w2_accepts own) | exact HQ].
  Qed.

  Lemma w2_consistent_with (Q : gtxn -> nat -> env -> Prop) :
    (forall t, In t grp -> Q t 0 (env2 (posn2 (g_id t)))) -> consistent_with Q funcs1 grp G2 posn2.
  Proof.
    intros HQ. constructor.
    - cbn. repeat constructor; cbn; intuition discriminate.
    - intros t Ht. apply in_grp in Ht. destruct Ht; subst t; reflexivity.
    - intros t i Ht E. apply in_grp in Ht. destruct Ht; subst t; cbn in E; [inversion E; reflexivity | discriminate].
    - intros t off oid Ht Hin. apply in_grp in Ht. destruct Ht; subst t; cbn in Hin; [contradiction|].
      destruct Hin as [E|[]]. inversion E; subst. reflexivity.
    - intros t k f r Ht Hk E. destruct (runs_grp t k f r Ht Hk E) as (-> & -> & ->).
      apply w2_approves_with; [|exact (HQ t Ht)]. apply in_grp in Ht. destruct Ht; subst t; reflexivity.
  Qed.

  Lemma w2_consistent : consistent funcs1 grp G2 posn2.
  Proof. apply w2_consistent_with. intros t _. exact I. Qed.

  Lemma w2_group_ok : group_ok funcs1 grp posn2.
  Proof.
    constructor.
    - intros o k f r Ho Hk E. destruct (runs_grp o k f r Ho Hk E) as (-> & -> & ->). exists 100. exact w_run_all.
    - intros o k f r Ho Hk E. destruct (runs_grp o k f r Ho Hk E) as (-> & -> & ->). exact w_graph_ok.
    - intros o k f r Ho Hk E. destruct (runs_grp o k f r Ho Hk E) as (-> & -> & ->). exact (w_int_leaves true).
    - intros o k f r Ho Hk E. destruct (runs_grp o k f r Ho Hk E) as (-> & -> & ->). exact (w_int_leaves false).
    - intros o k f r fam Ho Hk E _. destruct (runs_grp o k f r Ho Hk E) as (-> & -> & ->). exact (w2_fee_leaves fam).
  Qed.

  (* the tool's verdict on this configuration *)
  Example w2_fee_verdict_computed :
    group_verdict funcs1 checks_missing_fee_check "STATELESS" None grp = ["T1"; "T2"].
  Proof. vm_compute. reflexivity. Qed.

  (* ... agrees with the theorem: both pay 500000 > MAX_TRANSACTION_COST in the approved concrete group *)
  Theorem w2_fee_no_miss t : In t grp -> In (g_id t) (group_verdict funcs1 checks_missing_fee_check "STATELESS" None grp).
  Proof.
    intros Ht. apply (group_fee_verdict funcs1 grp G2 posn2 t 500000 w2_consistent w2_group_ok Ht).
    - apply in_grp in Ht. destruct Ht; subst t; reflexivity.
    - reflexivity.
    - vm_compute. split; [reflexivity | discriminate].
  Qed.

  Lemma w2_fresh e : fresh_in res1 "RekeyTo" (abs_name e "X") .
  Proof.
    assert (Hall : forallb (fun '(_, _, l) => forallb (fun '(_, s) => negb (smem "X" s) && negb (smem CREATOR_ADDRESS s)) l) (r_addrs res1) = true)
      by (vm_compute; reflexivity).
    intros fam l b s Hin Hl.
    rewrite forallb_forall in Hall. specialize (Hall _ Hin). cbn beta iota in Hall.
    rewrite forallb_forall in Hall. specialize (Hall _ (lookup_In l b s Hl)). cbn beta iota in Hall.
    apply andb_true_iff in Hall. destruct Hall as [H1 H2]. apply negb_true_iff in H1, H2.
    unfold abs_name. destruct ("X" =? e_creator e); assumption.
  Qed.

  Theorem w2_rekey_no_miss t : In t grp -> txn_vulnerable funcs1 checks_rekey_to "STATELESS" None grp t = true.
  Proof.
    intros Ht.
    apply (group_rekey_no_miss_partial funcs1 grp G2 posn2 "X").
    - apply w2_consistent_with. intros t' _ f r E. cbn in E. inversion E; subst f r.
      split; [intros fam _; apply w2_addr_leaves | apply w2_fresh].
    - exact (group_ok_base _ _ _ w2_group_ok).
    - exact Ht.
    - reflexivity.
    - discriminate.
    - reflexivity.
    - apply in_grp in Ht. destruct Ht; subst t; reflexivity.
  Qed.

  Example w2_rekey_verdict_computed :
    group_verdict funcs1 checks_rekey_to "STATELESS" None grp = ["T1"; "T2"].
  Proof. vm_compute. reflexivity. Qed.
End GroupWitness.

(* F2. The driver on sources.  T1 is signed by `int 1; return`, T2 by a logic-sig asserting
   Gtxn[GroupIndex - 1].Fee <= 1000.  With T2's relative index -1 configured as T1, T1 is cleared for
   missing-fee-check (rel_cleared: T2 reads it through the offset) and T2 is reported; without the relative index
   both are reported. *)
Module GroupDriverExample.
  Definition nl : string := String (Ascii.ascii_of_nat 10) "".
  Definition src1 : string := "#pragma version 6" ++ nl ++ "int 1" ++ nl ++ "return" ++ nl.
  Definition src2 : string :=
    "#pragma version 6" ++ nl ++ "txn GroupIndex" ++ nl ++ "int 1" ++ nl ++ "-" ++ nl ++ "gtxns Fee" ++ nl ++
    "int 1000" ++ nl ++ "<=" ++ nl ++ "assert" ++ nl ++ "int 1" ++ nl ++ "return" ++ nl.
  Definition T1 : gtxn := mkTxn "T1" "Pay" true (Some 0) None None [].
  Definition T2 : gtxn := mkTxn "T2" "Pay" true (Some 1) None None [((-1)%Z, "T1")].
  Definition T2' : gtxn := mkTxn "T2" "Pay" true (Some 1) None None [].

  Definition fee_verdict (group : list gtxn) : res (list string) :=
    match build_functions [(src1, [[0]]); (src2, [[0]])] with
    | Ok funcs => Ok (group_verdict funcs checks_missing_fee_check "STATELESS" None group)
    | Err e => Err e
    end.

  Example with_relative_index : fee_verdict [T1; T2] = Ok ["T2"].
  Proof. vm_compute. reflexivity. Qed.
  Example without_relative_index : fee_verdict [T1; T2'] = Ok ["T1"; "T2"].
  Proof. vm_compute. reflexivity. Qed.
End GroupDriverExample.

Print Assumptions GroupWitness.w2_fee_no_miss.
Print Assumptions GroupWitness.w2_rekey_no_miss.
Print Assumptions GroupDriverExample.with_relative_index.
