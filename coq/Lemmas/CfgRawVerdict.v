(* Lemmas/CfgRawVerdict.v -- the model verdict does not depend on whether the relative indexes of a record are given as
   listed (g_rel = the configured (offset, id) pairs: GroupInitGenLemmas.raw_gtxn) or already as the dictionary the
   model itself reads (normalize: g_rel = rel_dict): rel_dict is idempotent and the verdict reads g_rel only through
   rel_dict.  Hence regenerated init + regenerated verdict = Group.group_verdict of the RAW records of the configuration
   (cfg_verdict_raw_eq), which closes the remark in NOTES-ginit "cfg_gtxn carries g_rel already normalised". *)
From Coq Require Import String List NArith ZArith Bool Arith Lia.
From Tealer Require Import Tables LeafPrelude Syntax Parse Cfg StackAst Keys KeysGen Analysis Domains Detect SearchGen Group GroupGen GroupInitGen.
From Tealer Require Import SearchGenLemmas GroupLemmas GroupGenLemmas GroupInitGenLemmas.
Import ListNotations.
Open Scope string_scope.
Open Scope list_scope.

Lemma gdict_set_new {A} k (v : A) d : ~ In k (map fst d) -> Group.dict_set k v d = d ++ [(k, v)].
Proof.
  induction d as [|[k' v'] d IH]; intros Hn; [reflexivity|]. cbn [Group.dict_set map fst In] in *.
  destruct (Z.eqb_spec k k') as [E|E]; [exfalso; apply Hn; left; symmetry; exact E|].
  cbn [app]. f_equal. apply IH. intros X. apply Hn. right. exact X.
Qed.

Lemma rel_fold_nodup {A} : forall (l acc : list (Z * A)),
  NoDup (map fst l) -> (forall k, In k (map fst l) -> ~ In k (map fst acc)) ->
  fold_left (fun d '(k, v) => Group.dict_set k v d) l acc = acc ++ l.
Proof.
  induction l as [|[k v] l IH]; intros acc Hn Hd; cbn [fold_left]; [rewrite app_nil_r; reflexivity|].
  cbn [map fst] in Hn, Hd. inversion Hn as [|k0 l0 Hk Hn']; subst.
  rewrite gdict_set_new by (apply Hd; left; reflexivity). rewrite IH.
  - rewrite <- app_assoc. reflexivity.
  - exact Hn'.
  - intros k' Hk' Hin. rewrite map_app in Hin. apply in_app_or in Hin. destruct Hin as [Hin|[E|[]]].
    + exact (Hd k' (or_intror Hk') Hin).
    + cbn [fst] in E. subst k'. exact (Hk Hk').
Qed.

Theorem rel_dict_idempotent t : rel_dict (normalize t) = rel_dict t.
Proof.
  unfold rel_dict at 1. cbn [normalize g_rel].
  rewrite (rel_fold_nodup (rel_dict t) [] (rel_dict_offsets_distinct t)); [reflexivity | intros k _ []].
Qed.

Lemma relative_accessors_normalize g t : relative_accessors (map normalize g) (normalize t) = relative_accessors g t.
Proof.
  unfold relative_accessors. rewrite fold_left_map'. apply fold_left_ext_in. intros acc other _.
  rewrite rel_dict_idempotent. reflexivity.
Qed.

Lemma find_map_normalize (p : gtxn -> bool) g : find p (map normalize g) = option_map normalize (find (fun o => p (normalize o)) g).
Proof. induction g as [|o g IH]; [reflexivity|]. cbn [map find]. destruct (p (normalize o)); [reflexivity | exact IH]. Qed.

Lemma filter_map' {A B} (p : B -> bool) (f : A -> B) l : filter p (map f l) = map f (filter (fun x => p (f x)) l).
Proof. induction l as [|a l IH]; [reflexivity|]. cbn [map filter]. destruct (p (f a)); cbn [map]; rewrite IH; reflexivity. Qed.

Section RawVerdict.
  Variable funcs : list (func * fn_result).
  Variable checks : bctx -> bool.
  Variable dtype : string.
  Variable vtypes : option (list string).

  Theorem txn_vulnerable_normalize g t :
    txn_vulnerable funcs checks dtype vtypes (map normalize g) (normalize t) = txn_vulnerable funcs checks dtype vtypes g t.
  Proof.
    unfold txn_vulnerable. rewrite relative_accessors_normalize.
    cbn [normalize g_has_logic_sig g_application g_type g_logic_sig g_abs].
    assert (HE : forall q : gtxn -> bool, (forall o, q (normalize o) = q o) -> existsb q (map normalize g) = existsb q g).
    { intros q Hq. rewrite existsb_map. apply existsb_ext_in. intros o _. apply Hq. }
    assert (HF : forall l : list (string * Z),
              existsb (fun '(oid, off) =>
                         match find (fun o => g_id o =? oid) (map normalize g) with
                         | Some o => opt_check (g_logic_sig o) (fun k => checks_rel funcs checks k off) || opt_check (g_application o) (fun k => checks_rel funcs checks k off)
                         | None => false end) l =
              existsb (fun '(oid, off) =>
                         match find (fun o => g_id o =? oid) g with
                         | Some o => opt_check (g_logic_sig o) (fun k => checks_rel funcs checks k off) || opt_check (g_application o) (fun k => checks_rel funcs checks k off)
                         | None => false end) l).
    { intros l. apply existsb_ext_in. intros [oid off] _. rewrite find_map_normalize. cbn [normalize g_id].
      destruct (find (fun o => g_id o =? oid) g); reflexivity. }
    rewrite HF. destruct (g_abs t) as [i|]; [|reflexivity].
    rewrite HE; [reflexivity | intros o; reflexivity].
  Qed.

  Theorem group_verdict_normalize g :
    group_verdict funcs checks dtype vtypes (map normalize g) = group_verdict funcs checks dtype vtypes g.
  Proof.
    unfold group_verdict. rewrite filter_map', map_map.
    rewrite (filter_ext _ (txn_vulnerable funcs checks dtype vtypes g) (fun t => txn_vulnerable_normalize g t)). reflexivity.
  Qed.

  (* the verdict on the records of the configuration entries, relative indexes as listed *)
  Theorem cfg_verdict_raw_eq cs es :
    group_verdict funcs checks dtype vtypes (map (cfg_gtxn cs) es) = group_verdict funcs checks dtype vtypes (map (raw_gtxn cs) es).
  Proof.
    replace (map (cfg_gtxn cs) es) with (map normalize (map (raw_gtxn cs) es)) by (rewrite map_map; reflexivity).
    apply group_verdict_normalize.
  Qed.

  (* regenerated reading + regenerated verdict = the model verdict on the RAW records *)
  Theorem init_then_verdict_raw_eq cs grp heap g :
    init_group_gen cs grp = Ok (heap, g) ->
    dtype = "STATELESS" \/ dtype = "STATEFULL" ->
    group_ok funcs (map (cfg_gtxn cs) (cg_transactions grp)) ->
    group_verdict_gen funcs checks dtype vtypes (view_group heap g) =
    Some (group_verdict funcs checks dtype vtypes (map (raw_gtxn cs) (cg_transactions grp))).
  Proof. intros H Hd Hok. rewrite <- cfg_verdict_raw_eq. apply init_then_verdict_eq; assumption. Qed.
End RawVerdict.
Print Assumptions init_then_verdict_raw_eq.

Example rel_dict_idempotent_example :
  let t := mkTxn "a" "Pay" false None None None [(1%Z, "b"); (2%Z, "c"); (1%Z, "d")] in
  rel_dict t = [(1%Z, "d"); (2%Z, "c")] /\ rel_dict (normalize t) = rel_dict t /\ g_rel (normalize t) <> g_rel t.
Proof. cbv zeta. split; [vm_compute; reflexivity|]. split; [apply rel_dict_idempotent|]. vm_compute. discriminate. Qed.
