(* Model of tealer/teal/parse_teal.py: first_pass .. fourth_pass, block indices, subroutine
   discovery, pruning, the Teal record; tealer/utils/analyses.py global successor relations. *)
From Coq Require Import String List NArith ZArith Bool Ascii Arith.
From Tealer Require Import Tables Syntax Parse.
Import ListNotations.
Open Scope string_scope.
Open Scope list_scope.

(* ---------------------------------------------------------------- instructions with positions *)
Record ins := mkIns { i_line : nat; i_op : instr }.

(* str.splitlines() on \n, \r\n, \r (other separators of Python's splitlines are not modelled) *)
Fixpoint splitlines_acc (s cur : string) : list string :=
  match s with
  | EmptyString => match cur with EmptyString => [] | _ => [rev_string cur] end
  | String c t =>
      if Ascii.eqb c "010"%char then rev_string cur :: splitlines_acc t ""
      else if Ascii.eqb c "013"%char then
        match t with
        | String d t' => if Ascii.eqb d "010"%char then rev_string cur :: splitlines_acc t' ""
                         else rev_string cur :: splitlines_acc t ""
        | EmptyString => [rev_string cur]
        end
      else splitlines_acc t (String c cur)
  end.
Definition splitlines (s : string) : list string := splitlines_acc s "".

(* first_pass, parsing part: line numbers are 1-based *)
Fixpoint parse_lines (ls : list string) (n : nat) : res (list ins) :=
  match ls with
  | [] => Ok []
  | l :: t =>
      if starts_with "//" (strip l) then parse_lines t (S n)
      else
        do oi <- parse_line l;
        do r <- parse_lines t (S n);
        match oi with
        | Some i => Ok (mkIns n i :: r)
        | None => Ok r
        end
  end.
Definition parse_program (src : string) : res (list ins) := parse_lines (splitlines src) 1.

Definition prog := list ins.
Definition op_at (p : prog) (k : nat) : option instr := option_map i_op (nth_error p k).

(* labels[...] = ins : a later definition of the same name overwrites an earlier one *)
Fixpoint find_label_from (l : string) (p : prog) (k : nat) (acc : option nat) : option nat :=
  match p with
  | [] => acc
  | i :: t => find_label_from l t (S k)
               (match i_op i with ILabel l' => if l' =? l then Some k else acc | _ => acc end)
  end.
Definition find_label (p : prog) (l : string) : option nat := find_label_from l p 0 None.

Fixpoint map_opt {A B} (f : A -> option B) (l : list A) : option (list B) :=
  match l with
  | [] => Some []
  | x :: t => match f x, map_opt f t with Some y, Some r => Some (y :: r) | _, _ => None end
  end.

(* Instruction.next after first_pass and second_pass: default successor first, then jump targets in order *)
Definition ins_next (p : prog) (k : nat) : option (list nat) :=
  match op_at p k with
  | None => None
  | Some i =>
      let dflt := if negb (no_fallthrough i) && Nat.ltb (S k) (length p) then [S k] else [] in
      match map_opt (find_label p) (jump_labels i) with
      | Some js => Some (dflt ++ js)
      | None => None   (* KeyError: label *)
      end
  end.

(* ---------------------------------------------------------------- create_bb *)
(* A block is the list of positions of its instructions (contiguous, increasing).
   create_bb result: blocks in creation order with a flag "default edge to the following block". *)
Record rawblock := mkRaw { rb_ins : list nat; rb_dflt : bool }.

(* one step of the scan. state: finished blocks (reversed), current block (reversed positions) *)
Definition scan_step (p : prog) (lastk : nat) (st : list rawblock * list nat) (k : nat) (i : instr) (nnext : nat)
  : list rawblock * list nat :=
  let '(done, cur) := st in
  (* a label starts a new block unless the current one is empty *)
  let '(done1, cur1) :=
    match i, cur with
    | ILabel _, _ :: _ => (mkRaw (rev cur) true :: done, [])
    | _, _ => (done, cur)
    end in
  let cur2 := k :: cur1 in
  if (Nat.ltb 1 nnext || (match i with ICallsub _ => true | _ => false end))%bool then
    if Nat.eqb k lastk then (done1, cur2) else (mkRaw (rev cur2) true :: done1, [])
  else if (Nat.eqb nnext 0 || is_b i)%bool then
    if Nat.eqb k lastk then (done1, cur2) else (mkRaw (rev cur2) false :: done1, [])
  else (done1, cur2).

Fixpoint scan (p : prog) (lastk : nat) (rest : prog) (k : nat) (st : list rawblock * list nat)
  : option (list rawblock * list nat) :=
  match rest with
  | [] => Some st
  | i :: t =>
      match ins_next p k with
      | None => None
      | Some nx => scan p lastk t (S k) (scan_step p lastk st k (i_op i) (length nx))
      end
  end.

Definition create_bb (p : prog) : option (list rawblock) :=
  match scan p (pred (length p)) p 0 ([], []) with
  | None => None
  | Some (done, cur) => Some (rev (mkRaw (rev cur) false :: done))
  end.
(* note: the final current block is always appended; for a non-empty program it is non-empty because
   no split happens after the last instruction. An empty program yields one empty block (the code then
   fails on instructions[0]); parse_teal below returns Err in that case. *)

(* ---------------------------------------------------------------- block graph *)
Record block := mkBlock {
  b_idx : nat;
  b_ins : list nat;          (* positions in the full instruction list *)
  b_next : list nat;         (* successor block ids, in insertion order *)
  b_prev : list nat }.

Fixpoint block_of_pos (bs : list rawblock) (k : nat) (n : nat) : option nat :=
  match bs with
  | [] => None
  | b :: t => if existsb (Nat.eqb k) (rb_ins b) then Some n else block_of_pos t k (S n)
  end.

Definition nat_mem (x : nat) (l : list nat) : bool := existsb (Nat.eqb x) l.

Fixpoint add_new (l : list nat) (xs : list nat) : list nat :=   (* append each x not yet present *)
  match xs with
  | [] => l
  | x :: t => if nat_mem x l then add_new l t else add_new (l ++ [x]) t
  end.

(* next list of raw block n: default edge (from create_bb) then the blocks of exit_instr.next not yet present *)
Definition raw_next (p : prog) (bs : list rawblock) (n : nat) (b : rawblock) : option (list nat) :=
  match rb_ins b with
  | [] => None    (* exit_instr of an empty block: IndexError *)
  | _ =>
      let ex := List.last (rb_ins b) 0 in
      match ins_next p ex with
      | None => None
      | Some nx =>
          match map_opt (fun k => block_of_pos bs k 0) nx with
          | None => None
          | Some tb => Some (add_new (if rb_dflt b then [S n] else []) tb)
          end
      end
  end.

Fixpoint raw_nexts (p : prog) (all bs : list rawblock) (n : nat) : option (list (list nat)) :=
  match bs with
  | [] => Some []
  | b :: t => match raw_next p all n b, raw_nexts p all t (S n) with
              | Some x, Some r => Some (x :: r) | _, _ => None end
  end.

(* prev lists in the order the code appends: create_bb's default edges first (block n-1 -> n),
   then fourth_pass edges in order of source block and of its new successors *)
Definition prev_of (bs : list rawblock) (nexts : list (list nat)) (n : nat) : list nat :=
  let dflt := match n with
              | O => []
              | S m => match nth_error bs m with Some b => if rb_dflt b then [m] else [] | None => [] end
              end in
  let jumps :=
    flat_map (fun '(m, nx) =>
                (* successors added by fourth_pass = all but the default one *)
                let added := match nth_error bs m with
                             | Some b => if rb_dflt b then tl nx else nx
                             | None => nx end in
                if nat_mem n added then [m] else [])
             (combine (seq 0 (length nexts)) nexts) in
  dflt ++ jumps.

Definition build_blocks (p : prog) : option (list block) :=
  match create_bb p with
  | None => None
  | Some bs =>
      match raw_nexts p bs bs 0 with
      | None => None
      | Some nexts =>
          Some (map (fun '(n, (b, nx)) => mkBlock n (rb_ins b) nx (prev_of bs nexts n))
                    (combine (seq 0 (length bs)) (combine bs nexts)))
      end
  end.

(* ---------------------------------------------------------------- subroutines *)
Definition get_block (bs : list block) (n : nat) : option block := nth_error bs n.
Definition next_of (bs : list block) (n : nat) : list nat :=
  match get_block bs n with Some b => b_next b | None => [] end.

(* identify_subroutine_blocks: LIFO stack, visited list in pop order *)
Fixpoint dfs_blocks (fuel : nat) (bs : list block) (stack visited : list nat) : list nat :=
  match fuel with
  | O => visited
  | S f =>
      match stack with
      | [] => visited
      | _ =>
          let bb := List.last stack 0 in
          let stack1 := removelast stack in
          let visited1 := visited ++ [bb] in
          let stack2 := fold_left (fun stk nb => if (nat_mem nb visited1 || nat_mem nb stk)%bool then stk else stk ++ [nb])
                                  (next_of bs bb) stack1 in
          dfs_blocks f bs stack2 visited1
      end
  end.
Definition identify_subroutine_blocks (bs : list block) (entry : nat) : list nat :=
  dfs_blocks (S (length bs)) bs [entry] [].

(* subroutine names in order of first callsub occurrence, with the positions of their callsubs *)
Fixpoint callsub_table (p : prog) (k : nat) (acc : list (string * list nat)) : list (string * list nat) :=
  match p with
  | [] => acc
  | i :: t =>
      match i_op i with
      | ICallsub l =>
          let acc' := if existsb (fun '(n, _) => n =? l) acc
                      then map (fun '(n, ks) => if n =? l then (n, ks ++ [k]) else (n, ks)) acc
                      else acc ++ [(l, [k])] in
          callsub_table t (S k) acc'
      | _ => callsub_table t (S k) acc
      end
  end.

Record subroutine := mkSub {
  s_name : string;
  s_entry : nat;
  s_blocks : list nat;        (* in DFS order *)
  s_callers : list nat }.     (* Subroutine.caller_blocks: retained callsub blocks, in source order *)

Record teal := mkTeal {
  t_version : N;
  t_mode : xmode;
  t_prog : prog;              (* all parsed instructions (positions refer to this list) *)
  t_retained_ins : list nat;  (* positions kept after pruning *)
  t_blocks : list block;      (* retained blocks sorted by idx, edges restricted by pruning *)
  t_main : subroutine;
  t_subs : list subroutine;   (* in dict order *)
  t_intcs : option (list N) }.

Definition bb_of_pos (bs : list block) (k : nat) : option nat :=
  option_map b_idx (find (fun b => nat_mem k (b_ins b)) bs).

Definition detect_mode (p : prog) : xmode :=
  match find (fun i => match ins_mode (i_op i) with Some MAny => false | Some _ => true | None => false end) p with
  | Some i => match ins_mode (i_op i) with Some m => m | None => MAny end
  | None => MAny
  end.

Definition dedup_sorted (l : list nat) (n : nat) : list nat := filter (fun k => nat_mem k l) (seq 0 n).

Definition parse_teal (p : prog) : res teal :=
  match p with
  | [] => Err "IndexError: empty program"
  | i0 :: _ =>
    match build_blocks p with
    | None => Err "KeyError: label"
    | Some bs =>
      let version := match i_op i0 with IPragma v => v | _ => 1%N end in
      let ctab := callsub_table p 0 [] in
      match map_opt (fun '(name, ks) =>
                       match find_label p name with
                       | None => None
                       | Some lp => match bb_of_pos bs lp with
                                    | None => None
                                    | Some e => Some (name, ks, e, identify_subroutine_blocks bs e)
                                    end
                       end) ctab with
      | None => Err "KeyError: callsub label"
      | Some subs0 =>
        let main_blocks := identify_subroutine_blocks bs 0 in
        let reachable := flat_map (fun '(_, _, _, blks) => blks) subs0 ++ main_blocks in
        let retained := dedup_sorted reachable (length bs) in
        (* pruning: edges from unreachable blocks disappear from the prev lists of their targets
           (the model implements the evident intent: every such edge is removed) *)
        let bs' := map (fun b => mkBlock (b_idx b) (b_ins b) (b_next b)
                                   (filter (fun m => nat_mem m retained) (b_prev b)))
                       (filter (fun b => nat_mem (b_idx b) retained) bs) in
        let subs := map (fun '(name, ks, e, blks) =>
                           mkSub name e blks
                                 (filter (fun b => nat_mem b reachable)
                                         (flat_map (fun k => match bb_of_pos bs k with Some b => [b] | None => [] end) ks)))
                        subs0 in
        let mainsub := mkSub "__main__" 0 main_blocks [] in
        let retained_ins := flat_map b_ins bs' in
        let intcblocks := flat_map (fun '(k, i) => match i_op i with IIntcblock cs => [(k, cs)] | _ => [] end)
                                   (combine (seq 0 (length p)) p) in
        let intcs := match intcblocks with
                     | [(k, cs)] => if match bb_of_pos bs k with Some 0 => true | _ => false end then Some cs else None
                     | _ => None end in
        Ok (mkTeal version (detect_mode p) p retained_ins bs' mainsub subs intcs)
      end
    end
  end.

(* block lookup by idx in the retained list *)
Definition tblock (t : teal) (n : nat) : option block := find (fun b => Nat.eqb (b_idx b) n) (t_blocks t).

Definition exit_op (t : teal) (b : block) : option instr :=
  match b_ins b with [] => None | l => op_at (t_prog t) (List.last l 0) end.

Definition is_callsub_block (t : teal) (b : block) : bool :=
  match exit_op t b with Some (ICallsub _) => true | _ => false end.
Definition is_retsub_block (t : teal) (b : block) : bool :=
  match exit_op t b with Some IRetsub => true | _ => false end.

(* bb.subroutine: subroutines assign in dict order, main last (later assignment wins) *)
Definition sub_of_block (t : teal) (n : nat) : option subroutine :=
  if nat_mem n (s_blocks (t_main t)) then Some (t_main t)
  else find (fun s => nat_mem n (s_blocks s)) (rev (t_subs t)).

Definition find_sub (t : teal) (name : string) : option subroutine :=
  find (fun s => s_name s =? name) (t_subs t).

Definition called_subroutine (t : teal) (b : block) : option subroutine :=
  match exit_op t b with Some (ICallsub l) => find_sub t l | _ => None end.

(* ---------------------------------------------------------------- _verify_version *)
Fixpoint assoc_cls (c : string) (l : list (string * (string * N))) : option N :=
  match l with [] => None | (_, (c', v)) :: t => if c' =? c then Some v else assoc_cls c t end.

(* the field object of an instruction, with the kind (base class) it belongs to and its version *)
Definition ins_field (i : instr) : option (string * N) :=
  let txf (f : field) := match assoc_cls (fst f) tx_fields with
                         | Some v => Some ("TransactionField", v)
                         | None => option_map (fun v => ("TransactionField", v)) (assoc_cls (fst f) tx_array_fields) end in
  match i with
  | ITxn f | IGtxn _ f | IGtxns f => txf f
  | IGlobal g => option_map (fun v => ("GlobalField", v)) (assoc_cls g global_fields)
  | IOther c ps =>
      let fld := match ps with [PField f] => Some f | [PInt _; PField f] => Some f | _ => None end in
      match fld with
      | None => None
      | Some f =>
          if c =? "AssetHoldingGet" then option_map (fun v => ("AssetHoldingField", v)) (assoc_cls (fst f) asset_holding_fields)
          else if c =? "AssetParamsGet" then option_map (fun v => ("AssetParamsField", v)) (assoc_cls (fst f) asset_params_fields)
          else if c =? "AppParamsGet" then option_map (fun v => ("AppParamsField", v)) (assoc_cls (fst f) app_params_fields)
          else if c =? "AcctParamsGet" then option_map (fun v => ("AcctParamsField", v)) (assoc_cls (fst f) acct_params_fields)
          else txf f
      end
  | _ => None
  end.

Inductive vflag := FlagIns | FlagField.

Definition verify_ins (version : N) (i : instr) : option vflag :=
  match ins_version i with
  | Some iv =>
      if N.ltb version iv then Some FlagIns
      else match ins_field i with
           | Some (kind, fv) =>
               if existsb (String.eqb kind) version_checked_field_kinds && N.ltb version fv then Some FlagField else None
           | None => None
           end
  | None => None
  end.

Definition verify_version (p : prog) (version : N) : list (nat * vflag) * bool :=
  let flags := flat_map (fun i => match verify_ins version (i_op i) with Some fl => [(i_line i, fl)] | None => [] end) p in
  let stateful := existsb (fun i => match ins_mode (i_op i) with Some MStateful => true | _ => false end) p in
  let stateless := existsb (fun i => match ins_mode (i_op i) with Some MStateless => true | _ => false end) p in
  (flags, stateful && stateless).

Definition block_cost (t : teal) (b : block) : N :=
  fold_left (fun acc k => match op_at (t_prog t) k with
                          | Some i => match ins_cost (t_version t) i with Some c => (acc + c)%N | None => acc end
                          | None => acc end) (b_ins b) 0%N.
