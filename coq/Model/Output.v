(* Model of what tealer's exporters DRAW / LIST (data only; the DOT / JSON text rendering is not modelled):
     tealer/utils/output.py    : _bb_to_dot, full_cfg_to_dot, subroutine_to_dot, all_subroutines_to_dot,
                                 ExecutionPaths._short_notation / filter_paths / generate_output / to_json
     tealer/printers/full_cfg.py      (printer "cfg"            -> full_cfg.dot)
     tealer/printers/function_cfg.py  (printer "subroutine-cfg" -> contract_shortened_cfg.dot, subroutine_<name>_cfg.dot)
     tealer/printers/call_graph.py    (printer "call-graph"     -> call-graph.dot)
   Executable, extractable definitions only.  Lists keep the Python iteration order except where the Python
   iterates over a set (call-graph sources), which is said at the definition. *)
From Coq Require Import String List NArith Bool Arith Ascii.
From Tealer Require Import Syntax Parse Cfg Analysis.
Import ListNotations.
Open Scope string_scope.
Open Scope list_scope.

(* ---------------------------------------------------------------- edge colours (CFGDotConfig) *)
Inductive ecolor :=
| EDefault    (* default_branch_color  "#e0182b": fall-through edge of bz / bnz *)
| EJump       (* jump_branch_color     "#36d899": jump edge of bz / bnz *)
| ECall       (* callsub_edge_color    "#ff8c00": callsub block -> subroutine entry *)
| EPlain.     (* remaining_edges_color "BLACK" *)

Definition is_cond_branch_block (t : teal) (b : block) : bool :=
  match exit_op t b with Some (IBZ _) | Some (IBNZ _) => true | _ => false end.

(* ---------------------------------------------------------------- _bb_to_dot: one table per block *)
(* the rows of the node table: "{ins.line}. {source text}" -- the model keeps the line numbers *)
Definition block_lines (t : teal) (b : block) : list nat :=
  flat_map (fun k => match nth_error (t_prog t) k with Some i => [i_line i] | None => [] end) (b_ins b).

(* PORT of the first (comments) cell = line of the entry instruction; edges into the block point at it *)
Definition block_port (t : teal) (b : block) : option nat := hd_error (block_lines t b).

(* the edges _bb_to_dot emits for block b, as (target, colour), in emission order.
   config.ignore_edge (set by full_cfg_to_dot and by subroutine_to_dot) suppresses every edge leaving a callsub
   block.  color = config.color_edges (True for the printers, False for the detector path files):
   with colours a bz / bnz block draws next[0] (red) and next[1] (green), or only next[0] (green) when
   len(next) == 1; an empty next list would raise IndexError there (never happens for a parsed program:
   OutputLemmas.cond_branch_next_shape), the model draws nothing. *)
Definition local_out (color : bool) (t : teal) (b : block) : list (nat * ecolor) :=
  if is_callsub_block t b then []
  else if (color && is_cond_branch_block t b)%bool then
    match b_next b with
    | [] => []
    | [j] => [(j, EJump)]
    | d :: j :: _ => [(d, EDefault); (j, EJump)]
    end
  else map (fun n => (n, EPlain)) (b_next b).

(* Subroutine.retsub_blocks: the blocks of the subroutine, in subroutine.blocks (DFS) order, ending in retsub *)
Definition retsub_blocks (t : teal) (s : subroutine) : list nat :=
  filter (fun n => match tblock t n with Some b => is_retsub_block t b | None => false end) (s_blocks s).

(* ---------------------------------------------------------------- full_cfg_to_dot *)
(* extra edges emitted right after the node of a callsub block b:
     b -> called_subroutine.entry                          (orange)
     r -> b.sub_return_point  for r in callee.retsub_blocks (black)   -- none when the callsub is the last
                                                                         instruction (sub_return_point is None) *)
Definition call_out (t : teal) (b : block) : list (nat * nat * ecolor) :=
  match called_subroutine t b with
  | None => []                       (* not a callsub block *)
  | Some s =>
      (b_idx b, s_entry s, ECall) ::
      match sub_return_point b with
      | None => []
      | Some rp => map (fun r => (r, rp, EPlain)) (retsub_blocks t s)
      end
  end.

(* all edges of the file, in emission order (for bb in teal.bbs: node, its local edges, its call edges) *)
Definition full_cfg_colored_edges_gen (color : bool) (t : teal) : list (nat * nat * ecolor) :=
  flat_map (fun b => map (fun '(n, c) => (b_idx b, n, c)) (local_out color t b) ++ call_out t b) (t_blocks t).

Definition uncolor (l : list (nat * nat * ecolor)) : list (nat * nat) := map fst l.

(* printer "cfg" *)
Definition full_cfg_nodes (t : teal) : list nat := map b_idx (t_blocks t).
Definition full_cfg_colored_edges (t : teal) : list (nat * nat * ecolor) := full_cfg_colored_edges_gen true t.
Definition full_cfg_edges (t : teal) : list (nat * nat) := uncolor (full_cfg_colored_edges t).
(* node table of block n: line numbers of its instructions *)
Definition full_cfg_node_lines (t : teal) (n : nat) : list nat :=
  match tblock t n with Some b => block_lines t b | None => [] end.
(* "subgraph cluster_i { label = "Subroutine <name>"; <ids> }", i = position in teal.subroutines *)
Definition full_cfg_clusters (t : teal) : list (string * list nat) :=
  map (fun s => (s_name s, s_blocks s)) (t_subs t).
(* default config of the printer: border "#000066" for idx in subroutine_block_idx, BLACK otherwise, where
   subroutine_block_idx = {bb.idx | bb in teal.bbs, bb in teal.main.blocks}: despite its name the set holds
   the blocks of __main__ *)
Definition full_cfg_dark_border (t : teal) (n : nat) : bool := nat_mem n (s_blocks (t_main t)).

(* ---------------------------------------------------------------- subroutine_to_dot / all_subroutines_to_dot *)
(* routines exported by "subroutine-cfg", with their file names, in the order the files are written *)
Definition sub_cfg_routines (t : teal) : list subroutine := t_main t :: t_subs t.
Definition sub_cfg_files (t : teal) : list (string * subroutine) :=
  ("contract_shortened_cfg.dot", t_main t) ::
  map (fun s => (("subroutine_" ++ s_name s ++ "_cfg.dot")%string, s)) (t_subs t).

Definition sub_cfg_nodes (t : teal) (s : subroutine) : list nat := s_blocks s.
(* block -> block edges: the local edges of the routine's blocks; none leaves a callsub block *)
Definition sub_cfg_colored_edges (t : teal) (s : subroutine) : list (nat * nat * ecolor) :=
  flat_map (fun n => match tblock t n with
                     | Some b => map (fun '(m, c) => (n, m, c)) (local_out true t b)
                     | None => [] end) (s_blocks s).
Definition sub_cfg_edges (t : teal) (s : subroutine) : list (nat * nat) := uncolor (sub_cfg_colored_edges t s).
(* one dashed box per callsub block c of the routine: (c, return point, callee name).
   DOT node "x<c>_<rp>" ("x<c>_none" without return point) labelled "Subroutine <callee>", with the edges
   c -> box and, when there is a return point, box -> rp. *)
Definition sub_cfg_callboxes (t : teal) (s : subroutine) : list (nat * option nat * string) :=
  flat_map (fun n => match tblock t n with
                     | Some b => match called_subroutine t b with
                                 | Some c => [(n, sub_return_point b, s_name c)]
                                 | None => [] end
                     | None => [] end) (s_blocks s).

(* ---------------------------------------------------------------- PrinterCallGraph *)
Fixpoint dedup_str (l : list string) : list string :=       (* first occurrences, order kept *)
  match l with
  | [] => []
  | x :: r => x :: filter (fun y => negb (y =? x)) (dedup_str r)
  end.

(* the printer writes nothing but a message when teal.version < 4 *)
Definition callgraph_exported (t : teal) : bool := negb (N.ltb (t_version t) 4).
(* node declarations "name[label=name]": the subroutines, in dict order; __main__ gets no declaration *)
Definition callgraph_nodes (t : teal) : list string := map s_name (t_subs t).
(* graph[g.name] = set(bi.subroutine.name for bi in g.caller_blocks); bi.subroutine is the routine the
   block was assigned to last (sub_of_block; "__main__" for the contract's main code).
   A Python set: the model lists each source once, in order of first occurrence; compare as a set. *)
Definition callgraph_sources (t : teal) (g : subroutine) : list string :=
  dedup_str (flat_map (fun c => match sub_of_block t c with Some r => [s_name r] | None => [] end) (s_callers g)).
(* edges "f -> g" *)
Definition callgraph_edges (t : teal) : list (string * string) :=
  flat_map (fun g => map (fun f => (f, s_name g)) (callgraph_sources t g)) (t_subs t).

(* ---------------------------------------------------------------- ExecutionPaths *)
Definition dec_of_nat (n : nat) : string := string_of_N (N.of_nat n).     (* str(bb.idx) *)

(* _short_notation: "0 -> 2 -> 5" *)
Definition short_notation (path : list nat) : string := join " -> " (map dec_of_nat path).

(* generate_output: file <detector>-<i>.dot (i from 1) is full_cfg_to_dot with color_edges = False and
   border RED for the blocks whose idx is in the path, BLACK for the others *)
Definition path_marks (path : list nat) (b : nat) : bool := nat_mem b path.
Definition path_cfg_nodes (t : teal) : list nat := full_cfg_nodes t.
Definition path_cfg_colored_edges (t : teal) : list (nat * nat * ecolor) := full_cfg_colored_edges_gen false t.
Definition path_cfg_edges (t : teal) : list (nat * nat) := uncolor (path_cfg_colored_edges t).
Definition path_red_nodes (t : teal) (path : list nat) : list nat := filter (path_marks path) (full_cfg_nodes t).
Definition path_file_indices (paths : list (list nat)) : list (nat * list nat) :=
  combine (seq 1 (length paths)) paths.
Definition path_filename (detector : string) (i : nat) : string := (detector ++ "-" ++ dec_of_nat i ++ ".dot")%string.

(* filter_paths: re.search is a parameter (search pattern text = true iff some substring of text matches);
   the empty pattern keeps everything (explicit early return) *)
Definition filter_paths (search : string -> string -> bool) (pattern : string) (paths : list (list nat))
  : list (list nat) :=
  if pattern =? "" then paths
  else filter (fun path => negb (search pattern (short_notation path))) paths.

(* to_json *)
Definition json_count (paths : list (list nat)) : nat := length paths.
(* "blocks": per block of the path the rows "<line>: <instruction>" *)
Definition json_block_rows (t : teal) (n : nat) : list (nat * string) :=
  match tblock t n with
  | Some b => flat_map (fun k => match nth_error (t_prog t) k with
                                 | Some i => [(i_line i, str_of_instr (i_op i))] | None => [] end) (b_ins b)
  | None => []
  end.
Definition json_paths (t : teal) (paths : list (list nat)) : list (string * list (list (nat * string))) :=
  map (fun path => (short_notation path, map (json_block_rows t) path)) paths.
