(* Model of the TEXT tealer's DOT exporters show per block (the HTML-like node label), as structured values:
     tealer/utils/output.py : _instruction_to_dot (one <TR> per instruction), the label part of _bb_to_dot (header cell
                              + one row per instruction of the block), all_subroutines_to_dot (file names)
   and of the Python attributes these functions read that Model/Cfg.v does not keep:
     ins.source_code          = the source line the instruction was parsed from (parse_line: source_code_line = line),
                                i.e. line number ins.line of source_code.splitlines()  (first_pass: ins.line = idx)
     ins.comments_before_ins  = the comment lines between the previous instruction and this one (first_pass)
     ins.tealer_comments      = _add_instruction_comments (txn ApplicationID, method)
     bb.tealer_comments       = "block_id = <idx>; cost = <cost>" :: "Subroutine <name>" for the entry block of <name>
   A DOT row shows the SOURCE text of the instruction (html-escaped, stripped), not str(ins); the JSON rows
   (Output.json_block_rows) show str(ins).  Lemmas/RowsGenLemmas.v proves that the source text of a row parses to the
   instruction of the JSON row.  Executable definitions only. *)
From Coq Require Import String List NArith Bool Arith Ascii.
From Tealer Require Import Syntax Parse Cfg Analysis Output.
Import ListNotations.
Open Scope string_scope.
Open Scope list_scope.

(* ---------------------------------------------------------------- html.escape(s, quote=True) *)
Definition esc_char (c : ascii) : string :=
  if Ascii.eqb c "&" then "&amp;" else if Ascii.eqb c "<" then "&lt;" else if Ascii.eqb c ">" then "&gt;"
  else if Ascii.eqb c (ascii_of_nat 34) then "&quot;" else if Ascii.eqb c "'" then "&#x27;" else String c EmptyString.
Fixpoint esc (s : string) : string :=
  match s with EmptyString => EmptyString | String c r => (esc_char c ++ esc r)%string end.

(* ---------------------------------------------------------------- markup of the instruction text *)
Inductive markup := MPlain | MBoldItalic.     (* <B><I> .. </I></B> for callsub / retsub *)
Definition ins_markup (o : instr) : markup := match o with ICallsub _ | IRetsub => MBoldItalic | _ => MPlain end.
Definition mark (m : markup) (s : string) : string :=
  match m with MPlain => s | MBoldItalic => ("<B><I>" ++ s ++ "</I></B>")%string end.

(* ---------------------------------------------------------------- attributes of Instruction / BasicBlock *)
(* line n (1-based) of the source *)
Definition source_line (src : list string) (n : nat) : option string :=
  match n with 0 => None | S k => nth_error src k end.

Definition is_comment_line (l : string) : bool := starts_with "//" (strip l).
(* the comment lines with 1-based numbers lo < n < hi *)
Definition comments_between (src : list string) (lo hi : nat) : list string :=
  filter is_comment_line (firstn (hi - 1 - lo) (skipn lo src)).
Definition prev_line (p : prog) (k : nat) : nat :=
  match k with 0 => 0 | S k' => match nth_error p k' with Some i => i_line i | None => 0 end end.
(* ins.comments_before_ins of the instruction at position k *)
Definition comments_before (src : list string) (p : prog) (k : nat) : option (list string) :=
  option_map (fun i => comments_between src (prev_line p k) (i_line i)) (nth_error p k).

(* ins.tealer_comments; sel = get_method_selector (sha512/256, not modelled) *)
Definition ins_tealer_comments (sel : string -> string) (o : instr) : list string :=
  match o with
  | ITxn (f, _) => if f =? "ApplicationID" then ["ApplicationID is 0 in Creation Txn"] else []
  | IOther c [PStr sig] => if c =? "Method" then [("method-selector: " ++ sel sig)%string] else []
  | _ => []
  end.

(* bb.tealer_comments of a block of teal.bbs *)
Definition block_tealer_comments (t : teal) (b : block) : list string :=
  ("block_id = " ++ dec_of_nat (b_idx b) ++ "; cost = " ++ string_of_N (block_cost t b))%string
  :: map (fun s => ("Subroutine " ++ s_name s)%string) (filter (fun s => Nat.eqb (s_entry s) (b_idx b)) (t_subs t)).

(* ---------------------------------------------------------------- the rows, structured *)
Record row := mkRow {
  row_pos : nat;                 (* position of the instruction in t_prog *)
  row_line : nat;                (* ins.line *)
  row_src : string;              (* ins.source_code.strip() *)
  row_markup : markup;
  row_tealer : list string;      (* ins.tealer_comments *)
  row_before : list string }.    (* ins.comments_before_ins *)

Definition ins_row (sel : string -> string) (src : list string) (p : prog) (k : nat) : option row :=
  match nth_error p k with
  | Some i =>
      match source_line src (i_line i) with
      | Some l => Some (mkRow k (i_line i) (strip l) (ins_markup (i_op i)) (ins_tealer_comments sel (i_op i))
                              (comments_between src (prev_line p k) (i_line i)))
      | None => None
      end
  | None => None
  end.

(* the rows of a block: its instructions in order *)
Definition block_rows (sel : string -> string) (src : list string) (t : teal) (b : block) : list row :=
  flat_map (fun k => match ins_row sel src (t_prog t) k with Some r => [r] | None => [] end) (b_ins b).

(* ---------------------------------------------------------------- the cells of the TABLE, as _bb_to_dot writes them *)
(* CFGDotConfig, the fields the label depends on (total functions; blocks by idx, instructions by position) *)
Record rowcfg := mkRowCfg {
  mc_ins_extra : nat -> list string;        (* ins_additional_comments *)
  mc_bb_extra : nat -> list string;         (* bb_additional_comments *)
  mc_border_size : nat;                     (* comments_cell_border_size *)
  mc_border : nat -> string;                (* bb_border_color *)
  mc_background : nat -> option string }.   (* custom_background_color (a dict) *)
Definition default_rowcfg : rowcfg := mkRowCfg (fun _ => []) (fun _ => []) 2 (fun _ => "BLACK") (fun _ => None).

Inductive cell :=
| CHead (port border_size : nat) (comments : string)
       (* <TR><TD COLOR="BLACK" ALIGN="LEFT" BALIGN="LEFT" PORT="port" BORDER="size"><B>comments</B></TD></TR> *)
| CRow (color tealer before : string) (line : nat) (text : string).
       (* <TR><TD ALIGN="LEFT" BALIGN="LEFT" COLOR="color">tealer before line. text</TD></TR> *)
Record label := mkLabel { lb_node : nat; lb_border : string; lb_cells : list cell }.

Definition sanitize (cs : list string) : list string := map (fun c => esc (strip c)) cs.
Definition slashed (cs : list string) : string := join "<BR/>" (map (fun c => ("// " ++ c)%string) cs).
Definition tealer_text (cs : list string) : string :=
  match cs with [] => "" | _ => ("<B>" ++ slashed (sanitize cs) ++ "</B><BR/>")%string end.
Definition before_text (cs : list string) : string :=
  match cs with [] => "" | _ => (join "<BR/>" (sanitize cs) ++ "<BR/>")%string end.
Definition background (cfg : rowcfg) (k : nat) : string :=
  match mc_background cfg k with Some c => c | None => "BLACK" end.

Definition render_row (cfg : rowcfg) (r : row) : cell :=
  CRow (background cfg (row_pos r)) (tealer_text (row_tealer r ++ mc_ins_extra cfg (row_pos r)))
       (before_text (row_before r)) (row_line r) (mark (row_markup r) (esc (row_src r))).

Definition block_head (t : teal) (cfg : rowcfg) (b : block) : option cell :=
  option_map (fun port => CHead port (mc_border_size cfg)
                                (slashed (sanitize (block_tealer_comments t b ++ mc_bb_extra cfg (b_idx b)))))
             (block_port t b).

Definition block_label (sel : string -> string) (src : list string) (t : teal) (cfg : rowcfg) (b : block) : option label :=
  option_map (fun h => mkLabel (b_idx b) (mc_border cfg (b_idx b)) (h :: map (render_row cfg) (block_rows sel src t b)))
             (block_head t cfg b).

(* ---------------------------------------------------------------- all_subroutines_to_dot: files, in write order *)
Definition file_prefix (prefix : string) : string := if prefix =? "" then "" else (prefix ++ "_")%string.
Definition sub_cfg_files_prefixed (prefix : string) (t : teal) : list (string * subroutine) :=
  ((file_prefix prefix ++ "contract_shortened_cfg.dot")%string, t_main t) ::
  map (fun s => ((file_prefix prefix ++ "subroutine_" ++ s_name s ++ "_cfg.dot")%string, s)) (t_subs t).
