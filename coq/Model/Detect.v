(* Model of tealer/detectors/utils.py (validated_in_block, search_paths) and of function construction
   for the single-contract entry point (construct_function(teal, ["B0"])). *)
From Coq Require Import String List NArith ZArith Bool Arith.
From Tealer Require Import Tables LeafPrelude Leaves Syntax Parse Cfg StackAst Keys Analysis Domains.
Import ListNotations.
Open Scope string_scope.
Open Scope list_scope.

(* ---------------------------------------------------------------- contexts as the detectors read them *)
Definition addrval_of (s : sset) : addrval :=
  mkAddrVal (smem ANY_ADDRESS s) (smem NO_ADDRESS s)
            (filter (fun x => negb ((x =? ANY_ADDRESS) || (x =? NO_ADDRESS))) s).

Definition keyfam_eqb (a b : keyfam) : bool :=
  match a, b with
  | KSelf, KSelf => true
  | KAtIndex i, KAtIndex j | KAbs i, KAbs j => N.eqb i j
  | KRel x, KRel y => Z.eqb x y
  | _, _ => false
  end.

Definition res_addr (r : fn_result) (fld : string) (fam : keyfam) (b : nat) : sset :=
  match find (fun '(fl, fm, _) => (fl =? fld) && keyfam_eqb fm fam) (r_addrs r) with
  | Some (_, _, l) => match Analysis.lookup _ l b with Some v => v | None => addr_universal_set end
  | None => addr_universal_set
  end.
Definition res_fee (r : fn_result) (fam : keyfam) (b : nat) : feeval :=
  match find (fun '(fm, _) => keyfam_eqb fm fam) (r_fees r) with
  | Some (_, l) => match Analysis.lookup _ l b with Some v => v | None => fee_universal_set end
  | None => fee_universal_set
  end.
Definition res_types (r : fn_result) (fam : keyfam) (b : nat) : list string :=
  match find (fun '(fm, _) => keyfam_eqb fm fam) (r_types r) with
  | Some (_, l) => match Analysis.lookup _ l b with Some v => v | None => ALL_TRANSACTION_TYPES end
  | None => ALL_TRANSACTION_TYPES
  end.

(* BlockTransactionContext of block b: own (KSelf) or one of the tail contexts *)
Definition ctx_of (r : fn_result) (b : nat) (fam : keyfam) : bctx :=
  let fee := res_fee r fam b in
  let own := match fam with KSelf => true | _ => false end in
  mkBctx (addrval_of (res_addr r "RekeyTo" fam b)) (addrval_of (res_addr r "CloseRemainderTo" fam b))
         (addrval_of (res_addr r "AssetCloseTo" fam b)) (addrval_of (res_addr r "Sender" fam b))
         (res_types r fam b)
         (if fee_unknown fee then MAX_UINT64z else fee_value fee) (fee_unknown fee)
         (if own then match Analysis.lookup _ (r_sizes r) b with Some l => l | None => [] end else [])
         (if own then match Analysis.lookup _ (r_indices r) b with Some l => l | None => [] end else [])
         (negb own).

(* validated_in_block *)
Definition validated_in_block (r : fn_result) (checks : bctx -> bool) (absolute_index : option N) (b : nat) : bool :=
  if checks (ctx_of r b KSelf) then true else
  match absolute_index with
  | Some i => checks (ctx_of r b (KAtIndex i))
  | None => forallb (fun i => checks (ctx_of r b (KAtIndex (Z.to_N i)))) (ctx_group_indices (ctx_of r b KSelf))
  end.

(* ---------------------------------------------------------------- search_paths *)
Section Search.
  Variable f : func.
  Variable validated : nat -> bool.
  Variable report : list nat -> bool.

  Fixpoint but_last_l {A} (l : list A) : list A :=
    match l with [] => [] | [_] => [] | x :: t => x :: but_last_l t end.

  (* frames: (callsub block, subroutine name); "" is the function's main *)
  Fixpoint search (fuel : nat) (bb : nat) (path : list nat) (stack : list (option nat * string))
           (executed : list (list nat)) {struct fuel} : outcome (list (list nat)) :=
    match fuel with
    | O => OutOfFuel
    | S fu =>
        if nat_mem bb (List.last executed []) then Done [] else
        if validated bb then Done [] else
        let path' := path ++ [bb] in
        match fblock f bb with
        | None => Exn "KeyError: block"
        | Some b =>
            if leaf_global f b then Done (if report path' then [path'] else []) else
            let executed1 := but_last_l executed ++ [List.last executed [] ++ [bb]] in
            match fexit_op f b with
            | Some (ICallsub l) =>
                if existsb (fun '(_, s) => s =? l) stack then Done [] else
                match f_find_sub f l with
                | None => Exn "called_subroutine"
                | Some s => search fu (s_entry s) path' (stack ++ [(Some bb, l)]) (executed1 ++ [[]])
                end
            | Some IRetsub =>
                match List.last stack (None, "") with
                | (None, _) => Exn "AssertionError: callsub_block is None"
                | (Some cs, _) =>
                    match fblock f cs with
                    | None => Exn "KeyError: block"
                    | Some cb =>
                        match sub_return_point cb with
                        | Some rp => search fu rp path' (but_last_l stack) (but_last_l executed1)
                        | None => Done []
                        end
                    end
                end
            | _ =>
                match next_global f b with
                | None => Exn "KeyError: next_blocks_global"
                | Some nx =>
                    fold_left (fun acc nb =>
                                 match acc with
                                 | Done ps => match search fu nb path' stack executed1 with
                                              | Done qs => Done (ps ++ qs) | Exn e => Exn e | OutOfFuel => OutOfFuel end
                                 | x => x
                                 end) nx (Done [])
                end
            end
        end
    end.

  Definition detect_paths (fuel : nat) : outcome (list (list nat)) :=
    search fuel (fn_entry f) [] [(None, "")] [[]].
End Search.

(* group-size detector: _accessed_using_absolute_index *)
Definition accessed_using_absolute_index (f : func) (n : nat) : bool :=
  match fblock f n with
  | None => false
  | Some b =>
      match emulate (fn_prog f) (b_ins b) [] with
      | None => false
      | Some ast =>
          existsb (fun '(_, op, args) =>
                     match op with
                     | IGtxn _ _ => true
                     | IOther c _ =>
                         if (c =? "Gtxna") || (c =? "Gtxnas") then true
                         else if (c =? "Gtxnsa") || (c =? "Gtxnsas") then
                           match args with
                           | SKnown o _ _ _ :: _ => res_is_int (is_int_push_ins (fn_intcs f) o)
                           | _ => false end
                         else false
                     | IGtxns _ =>
                         match args with
                         | SKnown o _ _ _ :: _ => res_is_int (is_int_push_ins (fn_intcs f) o)
                         | _ => false end
                     | _ => false
                     end) ast
      end
  end.

Definition detectors : list (string * (bctx -> bool)) :=
  [("rekey-to", checks_rekey_to); ("can-close-account", checks_can_close_account);
   ("can-close-asset", checks_can_close_asset); ("missing-fee-check", checks_missing_fee_check);
   ("is-updatable", checks_is_updatable); ("is-deletable", checks_is_deletable);
   ("unprotected-updatable", checks_unprotected_updatable); ("unprotected-deletable", checks_unprotected_deletable);
   ("group-size-check", checks_group_size_check)].

Definition run_detector (f : func) (r : fn_result) (fuel : nat) (name : string) (checks : bctx -> bool)
  : outcome (list (list nat)) :=
  let report := if name =? "group-size-check"
                then (fun path => existsb (accessed_using_absolute_index f) path)
                else (fun _ => true) in
  detect_paths f (validated_in_block r checks None) report fuel.

(* ---------------------------------------------------------------- construct_function(teal, ["B0"]) *)
(* used subroutines: closure of called subroutines from the main blocks, in the order of the tool's worklist *)
Definition called_from (t : teal) (blks : list nat) : list string :=
  flat_map (fun n => match tblock t n with
                     | Some b => match exit_op t b with Some (ICallsub l) => [l] | _ => [] end
                     | None => [] end) blks.

(* Subroutine.called_subroutines: list(dict.fromkeys(...)) -- the callees in call-site order, each listed at
   its FIRST occurrence *)
Fixpoint dedup_first (l : list string) : list string :=
  match l with
  | [] => []
  | x :: xs => x :: filter (fun y => negb (String.eqb x y)) (dedup_first xs)
  end.

(* the worklist of construct_function: for the subroutine at the head of the worklist, its callees in
   first-occurrence order, each appended to [acc] (used_subroutines) and to the worklist iff not already in [acc] *)
Fixpoint used_subs (fuel : nat) (t : teal) (work : list string) (acc : list string) : list string :=
  match fuel with
  | O => acc
  | S fu =>
      match work with
      | [] => acc
      | s :: w =>
          let callees := match find_sub t s with Some sb => called_from t (s_blocks sb) | None => [] end in
          let new := filter (fun c => negb (smem c acc)) callees in
          let new := dedup_first new in
          used_subs fu t (w ++ new) (acc ++ new)
      end
  end.

Definition whole_function (t : teal) : func :=
  let main_blocks := s_blocks (t_main t) in
  let direct := dedup_first (called_from t main_blocks) in
  let used := used_subs (S (length (t_subs t))) t direct direct in
  let subs := flat_map (fun n => match find_sub t n with Some s => [s] | None => [] end) used in
  let ids := main_blocks ++ flat_map s_blocks subs in
  let blocks := flat_map (fun n => match tblock t n with Some b => [b] | None => [] end) ids in
  mkFunc (t_prog t) blocks 0 main_blocks subs (t_subs t) (t_intcs t).
