(* The four analyses (int_fields, txn_types, addr_fields, fee_field): comparison patterns on top of the
   generated leaf functions (Gen/Leaves.v), and run_analysis. *)
From Coq Require Import String List NArith ZArith Bool Arith.
From Tealer Require Import Tables LeafPrelude Leaves Syntax Parse Cfg StackAst Keys Analysis.
Import ListNotations.
Open Scope string_scope.
Open Scope list_scope.

Definition cmp_of (i : instr) : cmpop :=
  match i with
  | IEq => CEq | INeq => CNeq | ILess => CLess | ILessE => CLessE | IGreater => CGreater | IGreaterE => CGreaterE
  | _ => COther
  end.
(* _mirrored_comparison *)
Definition mirror (c : cmpop) : cmpop :=
  match c with CLess => CGreater | CLessE => CGreaterE | CGreater => CLess | CGreaterE => CLessE | x => x end.

(* ---------------------------------------------------------------- sets of Z / of labels as plain lists *)
Definition zmem (x : Z) (l : list Z) := existsb (Z.eqb x) l.
Definition zunion (a b : list Z) : list Z := a ++ filter (fun x => negb (zmem x a)) b.
Definition zinter (a b : list Z) : list Z := filter (fun x => zmem x b) a.
Definition zdiff (a b : list Z) : list Z := filter (fun x => negb (zmem x b)) a.
Definition zsubset (a b : list Z) : bool := forallb (fun x => zmem x b) a.
Definition zset_eqb (a b : list Z) : bool := zsubset a b && zsubset b a.

Definition lunion (a b : list string) : list string := a ++ filter (fun x => negb (smem x a)) b.
Definition linter (a b : list string) : list string := filter (fun x => smem x b) a.
Definition ldiff (a b : list string) : list string := filter (fun x => negb (smem x b)) a.
Definition lsubset (a b : list string) : bool := forallb (fun x => smem x b) a.
Definition lset_eqb (a b : list string) : bool := lsubset a b && lsubset b a.

(* ---------------------------------------------------------------- int_fields *)
Definition is_groupsize_read (i : instr) : bool := match i with IGlobal f => f =? "GroupSize" | _ => false end.
Definition is_groupindex_read (i : instr) : bool := match i with ITxn (f, _) => f =? "GroupIndex" | _ => false end.

Definition int_single (size : bool) (intcs : option (list N)) (op : instr) (pos : nat) (args : list sval)
  : list Z * list Z :=
  let U := if size then int_universal_groupsize else int_universal_groupindex in
  let isf := if size then is_groupsize_read else is_groupindex_read in
  match cmp_of op with
  | COther => (U, U)
  | c =>
      match args with
      | [SKnown o1 _ _ _; SKnown o2 _ _ _] =>
          let cv :=
            if isf o1 then match is_int_push_ins intcs o2 with IntNum n => Some (n, c) | _ => None end
            (* operand order is ignored by the code (known finding D2, pinned by tests/transaction_context) *)
            else if isf o2 then match is_int_push_ins intcs o1 with IntNum n => Some (n, c) | _ => None end
            else None in
          match cv with
          | Some (n, c') =>
              let a := int_get_asserted_int_values c' (Z.of_N n) U in
              (a, zdiff U a)
          | None => (U, U)
          end
      | _ => (U, U)
      end
  end.

(* ---------------------------------------------------------------- txn_types *)
Fixpoint assocN {A} (k : N) (l : list (N * A)) : option A :=
  match l with [] => None | (k', v) :: t => if N.eqb k' k then Some v else assocN k t end.

Definition to_tealer_type (names : list (string * N)) (ints : list (N * string)) (r : intres) : option string :=
  match r with
  | IntNum n => assocN n ints
  | IntName s => match assoc s names with Some n => assocN n ints | None => None end
  | _ => None
  end.
Definition transaction_type_to_tealer_type := to_tealer_type transaction_type_to_tealer_type_names transaction_type_to_tealer_type_ints.
Definition oncompletion_to_tealer_type := to_tealer_type oncompletion_to_tealer_type_names oncompletion_to_tealer_type_ints.

Definition appl_creation := ["ApplCreation"].
Definition appl_not_creation := ldiff APPLICATION_TRANSACTION_TYPES appl_creation.

Definition res_known (r : intres) : bool := match r with IntNum _ | IntName _ => true | _ => false end.
Definition res_is_int (r : intres) : bool := match r with NotInt => false | _ => true end.

Definition type_single (intcs : option (list N)) (fam : keyfam) (op : instr) (pos : nat) (args : list sval)
  : list string * list string :=
  let U := ALL_TRANSACTION_TYPES in
  let self := SKnown op pos args 0 in
  if value_matches intcs fam "ApplicationID" self then (appl_not_creation, appl_creation) else
  match op with
  | IEq | INeq =>
      match args with
      | [SKnown o1 p1 a1 x1 as v1; SKnown o2 p2 a2 x2 as v2] =>
          let r1 := is_int_push_ins intcs o1 in
          let r2 := is_int_push_ins intcs o2 in
          if Bool.eqb (res_is_int r1) (res_is_int r2) then (U, U) else
          let m1 := value_matches intcs fam in
          let tf0 : option (list string * list string) :=
            if m1 "ApplicationID" v1 && res_known r2 then
              match r2 with IntNum 0 => Some (appl_creation, appl_not_creation) | _ => None end
            else if m1 "ApplicationID" v2 && res_known r1 then
              match r1 with IntNum 0 => Some (appl_creation, appl_not_creation) | _ => None end
            else None in
          let tf1 :=
            if m1 "TypeEnum" v1 && res_known r2 then
              match transaction_type_to_tealer_type r2 with
              | Some c => Some ([c], ldiff TYPEENUM_TRANSACTION_TYPES [c]) | None => tf0 end
            else if m1 "TypeEnum" v2 && res_known r1 then
              match transaction_type_to_tealer_type r1 with
              | Some c => Some ([c], ldiff TYPEENUM_TRANSACTION_TYPES [c]) | None => tf0 end
            else tf0 in
          let tf2 :=
            if m1 "OnCompletion" v1 && res_known r2 then
              match oncompletion_to_tealer_type r2 with
              | Some c => Some ([c], ldiff APPLICATION_TRANSACTION_TYPES [c]) | None => tf1 end
            else if m1 "OnCompletion" v2 && res_known r1 then
              match oncompletion_to_tealer_type r1 with
              | Some c => Some ([c], ldiff APPLICATION_TRANSACTION_TYPES [c]) | None => tf1 end
            else tf1 in
          match tf2 with
          | Some (tv, fv) => match op with IEq => (tv, fv) | _ => (fv, tv) end
          | None => (U, U)
          end
      | _ => (U, U)
      end
  | _ => (U, U)
  end.

(* ---------------------------------------------------------------- addr_fields *)
Definition asserted_address (i : instr) : sset :=
  match i with
  | IGlobal f =>
      if f =? "ZeroAddress" then addr_null_set
      else if f =? "CreatorAddress" then set_of_list [CREATOR_ADDRESS]
      else set_of_list [(SOME_ADDRESS ++ "_" ++ str_of_instr i)%string]
  | IAddr a => if a =? ZERO_ADDRESS then addr_null_set else set_of_list [a]
  | _ => set_of_list [(SOME_ADDRESS ++ "_" ++ str_of_instr i)%string]
  end.

Definition addr_single (intcs : option (list N)) (fam : keyfam) (fld : string) (op : instr) (pos : nat) (args : list sval)
  : sset * sset :=
  let U := addr_universal_set in
  match op with
  | IEq | INeq =>
      let asserted : option sset :=
        match args with
        | [SUnknown; SUnknown] => None
        | [SUnknown; v2] => if value_matches intcs fam fld v2 then Some (set_of_list [SOME_ADDRESS]) else None
        | [v1; SUnknown] => if value_matches intcs fam fld v1 then Some (set_of_list [SOME_ADDRESS]) else None
        | [SKnown o1 _ _ _ as v1; SKnown o2 _ _ _ as v2] =>
            if value_matches intcs fam fld v1 then Some (asserted_address o2)
            else if value_matches intcs fam fld v2 then Some (asserted_address o1)
            else None
        | _ => None
        end in
      match asserted with
      | None => (U, U)
      | Some a => match op with IEq => (a, U) | _ => (U, a) end
      end
  | _ => (U, U)
  end.

(* ---------------------------------------------------------------- fee_field *)
Definition fee_single (intcs : option (list N)) (fam : keyfam) (op : instr) (pos : nat) (args : list sval)
  : feeval * feeval :=
  let U := fee_universal_set in
  let unk := mkFee true MAX_UINT64z in
  match cmp_of op with
  | COther => (U, U)
  | c =>
      let cv : option (feeval * cmpop) :=
        match args with
        | [SUnknown; SUnknown] => None
        | [SUnknown; v2] => if value_matches intcs fam "Fee" v2 then Some (unk, mirror c) else None
        | [v1; SUnknown] => if value_matches intcs fam "Fee" v1 then Some (unk, c) else None
        | [SKnown o1 _ _ _ as v1; SKnown o2 _ _ _ as v2] =>
            if value_matches intcs fam "Fee" v1 then
              Some (match is_int_push_ins intcs o2 with IntNum n => mkFee false (Z.of_N n) | _ => unk end, c)
            else if value_matches intcs fam "Fee" v2 then
              Some (match is_int_push_ins intcs o1 with IntNum n => mkFee false (Z.of_N n) | _ => unk end, mirror c)
            else None
        | _ => None
        end in
      match cv with
      | Some (v, c') => fee_get_asserted_max_value c' v
      | None => (U, U)
      end
  end.

(* ---------------------------------------------------------------- run_analysis for one key *)
Section Run.
  Variable T : Type.
  Variable t_eqb : T -> T -> bool.
  Variable univ null : T.
  Variable union inter : T -> T -> T.
  Variable single : instr -> nat -> list sval -> T * T.
  Variable f : func.
  Variable fuel : nat.

  Definition all_some {A} (l : list (option A)) : option (list A) := map_opt (fun x => x) l.

  (* step 1 for every block; the code evaluates next_blocks_global for every block here (eager KeyError) *)
  Definition init_constraints : option (list (nat * T)) :=
    if forallb (fun b => match next_global f b with Some _ => true | None => false end) (fn_blocks f)
    then all_some (map (fun b => option_map (fun c => (b_idx b, c)) (block_constraint T univ null union inter single f b)) (fn_blocks f))
    else None.

  (* forward then backward from given block-level constraints *)
  Definition solve (bc : list (nat * T)) : outcome (list (nat * T)) :=
    let st0 := map (fun b => (b_idx b, null)) (fn_blocks f) in
    match forward T t_eqb univ null union inter single f (lookup T bc) fuel (forward_worklist f) st0 with
    | Done ro =>
        let lo0 := map (fun b => (b_idx b, if leaf_global f b then match lookup T ro (b_idx b) with Some v => v | None => null end else null)) (fn_blocks f) in
        backward T t_eqb null union inter f (lookup T ro) fuel (backward_worklist f) lo0
    | Exn e => Exn e
    | OutOfFuel => OutOfFuel
    end.
End Run.

(* results of one function: per key string-free representation *)
Record fn_result := mkRes {
  r_sizes : list (nat * list Z);
  r_indices : list (nat * list Z);
  r_types : list (keyfam * list (nat * list string));
  r_addrs : list (string * keyfam * list (nat * sset));
  r_fees : list (keyfam * list (nat * feeval)) }.

Definition zmax_default (l : list Z) : Z := fold_left Z.max l 0%Z.

Definition seq_outcomes {A B} (l : list A) (g : A -> outcome B) : outcome (list B) :=
  fold_right (fun a acc => match acc with
                           | Done r => match g a with Done b => Done (b :: r) | Exn e => Exn e | OutOfFuel => OutOfFuel end
                           | x => x end) (Done []) l.

Definition addr_fields_list : list string := ["RekeyTo"; "CloseRemainderTo"; "AssetCloseTo"; "Sender"].

Definition sset_seteqb (a b : sset) : bool := lsubset a b && lsubset b a.

Section RunAll.
  Variable f : func.
  Variable fuel : nat.
  Let intcs := fn_intcs f.

  Definition run_int (size : bool) : outcome (list (nat * list Z)) :=
    let U := if size then int_universal_groupsize else int_universal_groupindex in
    match init_constraints _ U [] zunion zinter (int_single size intcs) f with
    | None => Exn "exception in block/path level constraints"
    | Some bc => solve _ zset_eqb U [] zunion zinter (int_single size intcs) f fuel bc
    end.

  (* generic: base key first; at-index keys are refined with the base result and the possible indices *)
  Definition run_family {T} (t_eqb : T -> T -> bool) (univ null : T) (union inter : T -> T -> T)
             (single : keyfam -> instr -> nat -> list sval -> T * T)
             (indices : list (nat * list Z)) : outcome (list (keyfam * list (nat * T))) :=
    match init_constraints _ univ null union inter (single KSelf) f with
    | None => Exn "exception in block/path level constraints"
    | Some bc0 =>
        match solve _ t_eqb univ null union inter (single KSelf) f fuel bc0 with
        | Done base =>
            match seq_outcomes all_gtx_fams (fun fam =>
                    match init_constraints _ univ null union inter (single fam) f with
                    | None => Exn "exception in block/path level constraints"
                    | Some bc =>
                        let bc' :=
                          match fam with
                          | KAtIndex i =>
                              map (fun '(b, c) =>
                                     let gi := match Analysis.lookup _ indices b with Some l => l | None => [] end in
                                     if zmem (Z.of_N i) gi
                                     then (b, inter c (match Analysis.lookup _ base b with Some v => v | None => null end))
                                     else (b, null)) bc
                          | _ => bc
                          end in
                        match solve _ t_eqb univ null union inter (single fam) f fuel bc' with
                        | Done r => Done (fam, r) | Exn e => Exn e | OutOfFuel => OutOfFuel end
                    end) with
            | Done rest => Done ((KSelf, base) :: rest)
            | Exn e => Exn e | OutOfFuel => OutOfFuel
            end
        | Exn e => Exn e
        | OutOfFuel => OutOfFuel
        end
    end.

  Definition run_all : outcome fn_result :=
    match run_int true, run_int false with
    | Done sizes, Done idx0 =>
        (* _store_results of GroupIndices: indices below the largest possible size *)
        let indices := map (fun '(b, gi) =>
                              let gs := match Analysis.lookup _ sizes b with Some l => l | None => [] end in
                              (b, filter (fun i => Z.ltb i (zmax_default gs)) gi)) idx0 in
        match seq_outcomes addr_fields_list (fun fld =>
                match run_family sset_seteqb addr_universal_set addr_null_set addr_union addr_intersection
                        (fun fam => addr_single intcs fam fld) indices with
                | Done r => Done (map (fun '(fam, v) => (fld, fam, v)) r)
                | Exn e => Exn e | OutOfFuel => OutOfFuel end) with
        | Done addrs =>
            match run_family feeval_eqb fee_universal_set fee_null_set fee_union fee_intersection
                    (fun fam => fee_single intcs fam) indices with
            | Done fees =>
                match run_family lset_eqb ALL_TRANSACTION_TYPES [] lunion linter
                        (fun fam => type_single intcs fam) indices with
                | Done types => Done (mkRes sizes indices types (concat addrs) fees)
                | Exn e => Exn e | OutOfFuel => OutOfFuel
                end
            | Exn e => Exn e | OutOfFuel => OutOfFuel
            end
        | Exn e => Exn e | OutOfFuel => OutOfFuel
        end
    | Exn e, _ | _, Exn e => Exn e
    | _, _ => OutOfFuel
    end.
End RunAll.
