(* Model of transaction_context/utils/key_helpers.py and group_helpers.py, and utils/analyses.is_int_push_ins *)
From Coq Require Import String List NArith ZArith Bool Arith.
From Tealer Require Import Tables Syntax Parse Cfg StackAst.
Import ListNotations.
Open Scope string_scope.
Open Scope list_scope.

(* is_int_push_ins: (False,None) | (True,None) | (True,int) | (True,str) *)
Inductive intres := NotInt | IntUnknown | IntNum (n : N) | IntName (s : string).

Definition intarg_res (a : intarg) : intres :=
  match a with IANum n => IntNum n | IAName s => IntName s end.

Definition is_int_push_ins (intcs : option (list N)) (i : instr) : intres :=
  let const k :=
    match intcs with
    | Some cs => match nth_error cs (N.to_nat k) with Some v => IntNum v | None => IntUnknown end
    | None => IntUnknown
    end in
  match i with
  | IInt a | IPushInt a => intarg_res a
  | IIntc k => const k
  | IIntcK k => const k
  | _ => NotInt
  end.

Inductive keyfam := KSelf | KAtIndex (i : N) | KAbs (i : N) | KRel (off : Z).
Record key := mkKey { k_fam : keyfam; k_base : string }.

Inductive txindex := XSelf | XAbs (n : N) | XRel (off : Z) | XUnknown.

Definition is_txn_groupindex (v : sval) : bool :=
  match v with SKnown (ITxn (f, _)) _ _ _ => f =? "GroupIndex" | _ => false end.

Definition op_of (v : sval) : option instr := match v with SKnown op _ _ _ => Some op | SUnknown => None end.

(* _get_index *)
Definition get_index (intcs : option (list N)) (v : sval) : txindex :=
  match v with
  | SUnknown => XUnknown
  | SKnown op _ args _ =>
      if is_txn_groupindex v then XSelf else
      match is_int_push_ins intcs op with
      | IntNum n => XAbs n
      | IntUnknown | IntName _ => XUnknown
      | NotInt =>
          match op, args with
          | ISub, [a1; a2] =>
              match a1, a2 with
              | SKnown _ _ _ _, SKnown op2 _ _ _ =>
                  if is_txn_groupindex a1 then
                    match is_int_push_ins intcs op2 with IntNum n => XRel (- Z.of_N n) | _ => XUnknown end
                  else XUnknown
              | _, _ => XUnknown
              end
          | IAdd, [a1; a2] =>
              match a1, a2 with
              | SKnown op1 _ _ _, SKnown op2 _ _ _ =>
                  if is_txn_groupindex a1 then
                    match is_int_push_ins intcs op2 with IntNum n => XRel (Z.of_N n) | _ => XUnknown end
                  else if is_txn_groupindex a2 then
                    match is_int_push_ins intcs op1 with IntNum n => XRel (Z.of_N n) | _ => XUnknown end
                  else XUnknown
              | _, _ => XUnknown
              end
          | _, _ => XUnknown
          end
      end
  end.

(* get_index_and_field *)
Definition get_index_and_field (intcs : option (list N)) (v : sval) : option (txindex * field) :=
  match v with
  | SKnown (ITxn f) _ _ _ => Some (XSelf, f)
  | SKnown (IGtxn i f) _ _ _ => Some (XAbs i, f)
  | SKnown (IGtxns f) _ args _ =>
      match args with
      | a :: _ => Some (get_index intcs a, f)
      | [] => Some (XUnknown, f)
      end
  | _ => None
  end.

(* is_value_matches_key(analysis_key, stack_value, key_field): [fld] is the field class to match *)
Definition value_matches (intcs : option (list N)) (fam : keyfam) (fld : string) (v : sval) : bool :=
  match get_index_and_field intcs v with
  | None => false
  | Some (idx, (fname, _)) =>
      match idx with
      | XUnknown => false
      | _ =>
          if negb (fname =? fld) then false else
          match fam, idx with
          | KAtIndex i, XAbs n | KAbs i, XAbs n => N.eqb n i
          | KRel off, XRel o => Z.eqb o off
          | KSelf, XSelf => true
          | _, _ => false
          end
      end
  end.

Definition max_group_size : nat := N.to_nat MAX_GROUP_SIZE.
Definition all_gtx_fams : list keyfam :=
  flat_map (fun i => [KAtIndex (N.of_nat i); KAbs (N.of_nat i)]) (seq 0 max_group_size)
  ++ flat_map (fun o => let z := (Z.of_nat o - (Z.of_nat max_group_size - 1))%Z in if Z.eqb z 0 then [] else [KRel z])
              (seq 0 (2 * max_group_size - 1)).
