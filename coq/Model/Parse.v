(* Model of tealer/teal/instructions/parse_instruction.py: tokenizer, integer literals, byte literals,
   rule dispatch over the *generated* ordered prefix list (Gen/Tables.parser_rules). *)
From Coq Require Import String List NArith ZArith Bool Ascii.
From Tealer Require Import Tables Syntax.
Import ListNotations.
Open Scope string_scope.

Inductive res (A : Type) := Ok (a : A) | Err (e : string).
Arguments Ok {A} a. Arguments Err {A} e.
Definition bind {A B} (r : res A) (f : A -> res B) : res B :=
  match r with Ok a => f a | Err e => Err e end.
Notation "'do' x <- r ; k" := (bind r (fun x => k)) (at level 200, x pattern, r at level 100, k at level 200).

(* ---------------------------------------------------------------- characters and strings *)
Definition is_space (c : ascii) : bool :=
  let n := nat_of_ascii c in
  (Nat.eqb n 32 || (Nat.leb 9 n && Nat.leb n 13) || (Nat.leb 28 n && Nat.leb n 31))%bool.

Fixpoint lstrip (s : string) : string :=
  match s with
  | String c t => if is_space c then lstrip t else s
  | EmptyString => EmptyString
  end.
Fixpoint rev_string_acc (s acc : string) : string :=
  match s with EmptyString => acc | String c t => rev_string_acc t (String c acc) end.
Definition rev_string s := rev_string_acc s "".
Definition rstrip (s : string) : string := rev_string (lstrip (rev_string s)).
Definition strip (s : string) : string := rstrip (lstrip s).

Definition starts_with (p s : string) : bool := String.prefix p s.
Fixpoint drop (n : nat) (s : string) : string :=
  match n, s with
  | O, _ => s
  | S k, String _ t => drop k t
  | S _, EmptyString => EmptyString
  end.
Fixpoint last_char (s : string) : option ascii :=
  match s with
  | EmptyString => None
  | String c EmptyString => Some c
  | String _ t => last_char t
  end.

(* str.split(" "): split on every single space (keeps empty pieces) *)
Fixpoint split_space_acc (s cur : string) : list string :=
  match s with
  | EmptyString => [rev_string cur]
  | String c t => if Ascii.eqb c " "%char then rev_string cur :: split_space_acc t "" else split_space_acc t (String c cur)
  end.
Definition split_space (s : string) : list string := split_space_acc s "".

(* str.split(): split on whitespace runs, no empty pieces *)
Fixpoint split_ws_acc (s cur : string) : list string :=
  match s with
  | EmptyString => match cur with EmptyString => [] | _ => [rev_string cur] end
  | String c t =>
      if is_space c then (match cur with EmptyString => split_ws_acc t "" | _ => rev_string cur :: split_ws_acc t "" end)
      else split_ws_acc t (String c cur)
  end.
Definition split_ws (s : string) : list string := split_ws_acc s "".

Fixpoint remove_spaces (s : string) : string :=
  match s with
  | EmptyString => EmptyString
  | String c t => if Ascii.eqb c " "%char then remove_spaces t else String c (remove_spaces t)
  end.

(* ---------------------------------------------------------------- integers: _parse_int / _is_int *)
Definition digit_val (c : ascii) : option N :=
  let n := N_of_ascii c in
  if (N.leb 48 n && N.leb n 57)%bool then Some (n - 48)%N
  else if (N.leb 97 n && N.leb n 102)%bool then Some (n - 87)%N
  else if (N.leb 65 n && N.leb n 70)%bool then Some (n - 55)%N
  else None.
Fixpoint parse_base_acc (base : N) (s : string) (acc : N) : option N :=
  match s with
  | EmptyString => Some acc
  | String c t =>
      match digit_val c with
      | Some d => if N.ltb d base then parse_base_acc base t (acc * base + d)%N else None
      | None => None
      end
  end.
Definition parse_base (base : N) (s : string) : option N :=
  match s with EmptyString => None | _ => parse_base_acc base s 0 end.

(* Python: 0x.. -> int(x[2:],16); 0.. -> int(x,8); else int(x).  Only plain digit strings are modelled;
   other spellings Python's int() accepts (underscores, sign, surrounding blanks) give Err here. *)
Definition parse_int (x : string) : res N :=
  let r :=
    if starts_with "0x" x then parse_base 16 (drop 2 x)
    else if starts_with "0" x then parse_base 8 x
    else parse_base 10 x in
  match r with Some n => Ok n | None => Err ("ValueError: int " ++ x) end.

Fixpoint all_digits (s : string) : bool :=
  match s with
  | EmptyString => true
  | String c t => (let n := nat_of_ascii c in Nat.leb 48 n && Nat.leb n 57) && all_digits t
  end.
Definition is_int (x : string) : bool :=
  starts_with "0x" x || (match x with EmptyString => false | _ => all_digits x end).

Definition parse_int_or_name (x : string) : res intarg :=
  if is_int x then (do n <- parse_int x; Ok (IANum n)) else Ok (IAName x).

(* ---------------------------------------------------------------- tokenizer: _split_instruction_into_tokens *)
(* state machine over the stripped line; mirrors the while-loop: [cur] is line[start:i] reversed *)
Fixpoint tok_string (fuel : nat) (s : string) (cur : string) (esc : bool) : option (string * string) :=
  (* inside a quoted literal that started a token: scan to the closing quote; a backslash escapes the character
     after it ([esc] = the previous character was an unescaped backslash), so `\"` does not close the literal and
     `\\"` does *)
  match s with
  | EmptyString => None
  | String c t =>
      if esc then tok_string fuel t (String c cur) false
      else if Ascii.eqb c "\"%char then tok_string fuel t (String c cur) true
      else if Ascii.eqb c """"%char then Some (rev_string (String c cur), t)
      else tok_string fuel t (String c cur) false
  end.

(* _in_base64_literal(fields, token): the token being read is base64 data, in which "//" is not a comment ("/" is a
   base64 symbol: `byte base64 //8=` and `byte b64(//8=)` are the two bytes 0xffff).  [prev] is fields[-1] ("" when
   there is no field yet: no token is empty); [cur] is the part of the current token read so far, REVERSED. *)
Definition is_b64_kw (t : string) : bool := (t =? "base64") || (t =? "b64").
Definition in_b64 (prev cur : string) : bool :=
  starts_with "base64(" (rev_string cur) || starts_with "b64(" (rev_string cur) || is_b64_kw prev.

Fixpoint tokenize_acc (fuel : nat) (s : string) (cur : string) (prev : string) : res (list string) :=
  match fuel with
  | O => Err "tokenizer fuel"
  | S f =>
      match s with
      | EmptyString => match cur with EmptyString => Ok [] | _ => Ok [strip (rev_string cur)] end
      | String c t =>
          if is_space c then
            match cur with
            | EmptyString => tokenize_acc f t "" prev
            | _ => let tk := strip (rev_string cur) in do r <- tokenize_acc f t "" tk; Ok (tk :: r)
            end
          else if Ascii.eqb c """"%char then
            match cur with
            | EmptyString =>
                match tok_string f t (String c "") false with
                | Some (tokn, rest) => do r <- tokenize_acc f rest "" tokn; Ok (tokn :: r)
                | None => Err "ParseError: missing closing quote"
                end
            | _ => tokenize_acc f t (String c cur) prev
            end
          else if starts_with "//" s && negb (in_b64 prev cur) then
            (* comment token: rest of the line.  A pending partial token is dropped exactly as in the code
               (fields.append(line[i:]) without flushing line[start:i]).  Inside base64 data "//" is data. *)
            Ok [s]
          else tokenize_acc f t (String c cur) prev
      end
  end.
Definition tokenize (line : string) : res (list string) :=
  let l := strip line in tokenize_acc (S (String.length l)) l "" "".

(* ---------------------------------------------------------------- base64 / base32 -> "0x<hex>" *)
Definition b64_val (c : ascii) : option N :=
  let n := N_of_ascii c in
  if (N.leb 65 n && N.leb n 90)%bool then Some (n - 65)%N
  else if (N.leb 97 n && N.leb n 122)%bool then Some (n - 71)%N
  else if (N.leb 48 n && N.leb n 57)%bool then Some (n + 4)%N
  else if N.eqb n 43 then Some 62%N else if N.eqb n 47 then Some 63%N else None.
Definition b32_val (c : ascii) : option N :=
  let n := N_of_ascii c in
  if (N.leb 65 n && N.leb n 90)%bool then Some (n - 65)%N
  else if (N.leb 50 n && N.leb n 55)%bool then Some (n - 24)%N else None.

(* symbols (without padding / foreign characters) of [bits] bits each -> bit accumulator -> bytes *)
Fixpoint decode_syms (bits : N) (vals : list N) (acc : N) (nacc : N) : list N :=
  match vals with
  | [] => []
  | v :: t =>
      let acc' := (acc * N.pow 2 bits + v)%N in
      let n' := (nacc + bits)%N in
      if N.leb 8 n' then
        let sh := (n' - 8)%N in
        N.shiftr acc' sh :: decode_syms bits t (N.land acc' (N.pow 2 sh - 1)) sh
      else decode_syms bits t acc' n'
  end.
Fixpoint string_vals (f : ascii -> option N) (s : string) : list N :=
  match s with
  | EmptyString => []
  | String c t => match f c with Some v => v :: string_vals f t | None => string_vals f t end
  end.
Definition hex_digit (n : N) : ascii := ascii_of_N (if N.ltb n 10 then 48 + n else 87 + n).
Fixpoint hex_of_bytes (l : list N) : string :=
  match l with
  | [] => EmptyString
  | b :: t => String (hex_digit (N.div b 16)) (String (hex_digit (N.modulo b 16)) (hex_of_bytes t))
  end.
(* base64.b64decode(s + padding) for well-formed input (characters outside the alphabet are discarded,
   as the non-validating decoder does); "=" padding carries no data *)
Definition b64_decode (s : string) : string := "0x" ++ hex_of_bytes (decode_syms 6 (string_vals b64_val s) 0 0).
Definition b32_decode (s : string) : string := "0x" ++ hex_of_bytes (decode_syms 5 (string_vals b32_val s) 0 0).

(* ---------------------------------------------------------------- byte literals: _parse_byte_arguments *)
Definition ends_with_paren (s : string) : bool :=
  match last_char s with Some c => Ascii.eqb c ")"%char | None => false end.
Fixpoint after_paren (s : string) : string :=   (* s.split("(")[1] for one "(" *)
  match s with
  | EmptyString => EmptyString
  | String c t => if Ascii.eqb c "("%char then t else after_paren t
  end.
Fixpoint parse_byte_args (fuel : nat) (fs : list string) : res (list string) :=
  match fuel with
  | O => Err "fuel"
  | S f =>
      match fs with
      | [] => Ok []
      | x :: t =>
          if (x =? "base64") || (x =? "b64") then
            match t with
            | y :: t' => do r <- parse_byte_args f t'; Ok (b64_decode y :: r)
            | [] => Err "ParseError: incorrect byte format"
            end
          else if (x =? "base32") || (x =? "b32") then
            match t with
            | y :: t' => do r <- parse_byte_args f t'; Ok (b32_decode y :: r)
            | [] => Err "ParseError: incorrect byte format"
            end
          else if starts_with "base64(" x || starts_with "b64(" x then
            if ends_with_paren x then do r <- parse_byte_args f t; Ok (b64_decode (drop_last (after_paren x)) :: r)
            else Err "ParseError: incorrect byte format"
          else if starts_with "base32(" x || starts_with "b32(" x then
            if ends_with_paren x then do r <- parse_byte_args f t; Ok (b32_decode (drop_last (after_paren x)) :: r)
            else Err "ParseError: incorrect byte format"
          else if starts_with "0x" x || starts_with """" x then
            do r <- parse_byte_args f t; Ok (x :: r)
          else Err "ParseError: incorrect byte format"
      end
  end.

(* ---------------------------------------------------------------- fields *)
Fixpoint assoc {A} (k : string) (l : list (string * A)) : option A :=
  match l with [] => None | (k', v) :: t => if k' =? k then Some v else assoc k t end.

Fixpoint find_array_field (x : string) (l : list (string * (string * N))) : option (string * string) :=
  match l with
  | [] => None
  | (txt, (cls, _)) :: t => if starts_with txt x then Some (txt, cls) else find_array_field x t
  end.

Definition parse_tx_field (x : string) (use_stack : bool) : res field :=
  match find_array_field x tx_array_fields with
  | Some (txt, cls) =>
      if use_stack then Ok (cls, Some (-1)%Z)
      else do n <- parse_int (drop (String.length txt + 1) x); Ok (cls, Some (Z.of_N n))
  | None =>
      match assoc (remove_spaces x) tx_fields with
      | Some (cls, _) => Ok (cls, None)
      | None => Err ("KeyError: transaction field " ++ x)
      end
  end.

Definition parse_named_field (tbl : list (string * (string * N))) (x : string) : res field :=
  match assoc x tbl with
  | Some (cls, _) => Ok (cls, None)
  | None => Err ("KeyError: field " ++ x)
  end.

Fixpoint map_res {A B} (f : A -> res B) (l : list A) : res (list B) :=
  match l with
  | [] => Ok []
  | x :: t => do y <- f x; do r <- map_res f t; Ok (y :: r)
  end.

(* ---------------------------------------------------------------- immediates by shape *)
Definition parse_shape (sh : shape) (x : string) : res (list param) :=
  match sh with
  | SNone => Ok []
  | SInt => do n <- parse_int x; Ok [PInt n]
  | SIntOrName => do a <- parse_int_or_name x; Ok [PIntOrName a]
  | SStr => Ok [PStr x]
  | STxField => do f <- parse_tx_field x false; Ok [PField f]
  | STxFieldStack => do f <- parse_tx_field x true; Ok [PField f]
  | SGlobalField => do f <- parse_named_field global_fields x; Ok [PField f]
  | SAssetHoldingField => do f <- parse_named_field asset_holding_fields x; Ok [PField f]
  | SAssetParamsField => do f <- parse_named_field asset_params_fields x; Ok [PField f]
  | SAppParamsField => do f <- parse_named_field app_params_fields x; Ok [PField f]
  | SAcctParamsField => do f <- parse_named_field acct_params_fields x; Ok [PField f]
  | SIntsSplit => do l <- map_res parse_int (split_space x); Ok [PInts l]
  | SIntsWs => do l <- map_res parse_int (split_ws (strip x)); Ok [PInts l]
  | SInt2 =>
      match split_space x with
      | a :: b :: _ => do n <- parse_int a; do m <- parse_int b; Ok [PInt n; PInt m]
      | _ => Err "IndexError"
      end
  | SLabels => Ok [PStrs (split_space x)]
  | SOptInt => if x =? "" then Ok [PNoneP] else do n <- parse_int x; Ok [PInt n]
  | SGtxn =>
      match split_space x with
      | a :: rest => do n <- parse_int a; do f <- parse_tx_field (join " " rest) false; Ok [PInt n; PField f]
      | [] => Err "IndexError"
      end
  | SGtxnStack =>
      match split_space x with
      | a :: b :: _ => do n <- parse_int a; do f <- parse_tx_field b true; Ok [PInt n; PField f]
      | _ => Err "IndexError"
      end
  end.

(* ---------------------------------------------------------------- signed immediates (frame_dig i / frame_bury i: int8) *)
(* The classes whose immediate the AVM assembler reads as a SIGNED integer.  For these the immediate is the parameter
   form PSInt z, whatever its sign; every other class keeps the natural-number forms of parse_shape. *)
Definition signed_imm_class (c : string) : bool := (c =? "FrameDig") || (c =? "FrameBury").
(* _parse_int on such an immediate.  "-d1..dk" starts neither with "0x" nor with "0", so Python evaluates int(x) in
   base 10 (leading zeros allowed: "-010" is -10, "-0x1" raises); without sign it is parse_int. *)
Definition parse_sint (x : string) : res Z :=
  match x with
  | String c t =>
      if Ascii.eqb c "-"%char then
        match parse_base 10 t with Some n => Ok (Z.opp (Z.of_N n)) | None => Err ("ValueError: int " ++ x) end
      else do n <- parse_int x; Ok (Z.of_N n)
  | EmptyString => do n <- parse_int x; Ok (Z.of_N n)
  end.
(* immediates of a rule (class, shape): parse_shape, except that an SInt immediate of a signed class is read signed *)
Definition parse_imm (cls : string) (sh : shape) (x : string) : res (list param) :=
  match sh with
  | SInt => if signed_imm_class cls then (do z <- parse_sint x; Ok [PSInt z]) else parse_shape sh x
  | _ => parse_shape sh x
  end.

Fixpoint first_rule (line : string) (rules : list (string * (string * shape))) : option (string * string * shape) :=
  match rules with
  | [] => None
  | (key, (cls, sh)) :: t => if starts_with key line then Some (key, cls, sh) else first_rule line t
  end.

Definition label_strip (c : string) : bool :=
  match lookup_class c with Some ci => c_label_strip ci | None => false end.
Definition fix_params (c : string) (ps : list param) : list param :=
  if label_strip c then map (fun p => match p with PStr s => PStr (remove_spaces s) | q => q end) ps else ps.

Fixpoint but_last {A} (l : list A) : list A :=
  match l with [] => [] | [_] => [] | x :: t => x :: but_last t end.

(* parse_line: None = blank / comment-only line *)
Definition parse_line (line : string) : res (option instr) :=
  if strip line =? "" then Ok None else
  do fields0 <- tokenize line;
  (* the last token is the comment unless it is base64 data: _in_base64_literal(fields[:-1], "") *)
  let fields := match List.last fields0 "" with
                | lastf => if starts_with "//" lastf && negb (in_b64 (List.last (but_last fields0) "") "")
                           then but_last fields0 else fields0 end in
  match fields with
  | [] => Ok None
  | f0 :: rest =>
      let is_lab := match last_char f0 with Some c => Ascii.eqb c ":"%char | None => false end in
      if is_lab then
        match rest with
        | [] => Ok (Some (ILabel (remove_spaces (drop_last f0))))
        | _ => Err "ParseError: incorrect format of label"
        end
      else if (f0 =? "byte") || (f0 =? "pushbytes") || (f0 =? "method") then
        do imm <- parse_byte_args (S (length rest)) rest;
        match imm with
        | [b] => Ok (Some (IOther (if f0 =? "byte" then "Byte" else if f0 =? "pushbytes" then "PushBytes" else "Method") [PStr b]))
        | _ => Err "ParseError: expects exactly one argument"
        end
      else if f0 =? "bytecblock" then
        do imm <- parse_byte_args (S (length rest)) rest; Ok (Some (IOther "Bytecblock" [PStrs imm]))
      else if f0 =? "pushbytess" then
        do imm <- parse_byte_args (S (length rest)) rest; Ok (Some (IOther "PushBytess" [PStrs imm]))
      else
        let l := join " " fields in
        match first_rule l parser_rules with
        | Some (key, cls, sh) =>
            do ps <- parse_imm cls sh (strip (drop (String.length key) l));
            Ok (Some (of_generic cls (fix_params cls ps)))
        | None => Ok (Some (IOther "UnsupportedInstruction" [PStr l]))
        end
  end.
