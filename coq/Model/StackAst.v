(* Model of tealer/analyses/utils/stack_ast_builder.py: symbolic stack with unknown bottom,
   construct_stack_ast, And/Or flattening (compute_equations) as a condition tree. *)
From Coq Require Import String List NArith ZArith Bool Arith.
From Tealer Require Import Tables Syntax Parse Cfg.
Import ListNotations.

(* a stack value: unknown, or the [out]-th value pushed by the instruction at position [pos] (whose
   opcode is [op]) applied to [args] (args: deepest first, i.e. args[-1] was on top) *)
Inductive sval :=
| SUnknown
| SKnown (op : instr) (pos : nat) (args : list sval) (out : nat).

(* the symbolic stack: head = top of stack; everything below the list is unknown *)
Definition sstack := list sval.

(* Stack.pop_n_values: returns (popped values deepest-first, remaining stack) *)
Definition pop_n (st : sstack) (n : nat) : list sval * sstack :=
  if Nat.leb n (length st) then (rev (firstn n st), skipn n st)
  else (repeat SUnknown (n - length st) ++ rev st, []).

Definition push_outs (op : instr) (pos : nat) (args : list sval) (m : nat) (st : sstack) : sstack :=
  rev (map (fun k => SKnown op pos args k) (seq 0 m)) ++ st.

(* one instruction: returns its input value list and the new stack; None = exception in arity lookup *)
Definition emulate_ins (op : instr) (pos : nat) (st : sstack) : option (list sval * sstack) :=
  match stack_pop_size op, stack_push_size op with
  | Some n, Some m =>
      let '(args, st') := pop_n st n in
      Some (args, push_outs op pos args m st')
  | _, _ => None
  end.

(* construct_stack_ast over the positions of a block: list of (pos, op, args) *)
Fixpoint emulate (p : prog) (poss : list nat) (st : sstack) : option (list (nat * instr * list sval)) :=
  match poss with
  | [] => Some []
  | k :: t =>
      match op_at p k with
      | None => None
      | Some op =>
          match emulate_ins op k st with
          | None => None
          | Some (args, st') =>
              match emulate p t st' with
              | None => None
              | Some r => Some ((k, op, args) :: r)
              end
          end
      end
  end.

Definition construct_stack_ast (p : prog) (b : block) := emulate p (b_ins b) [].

(* get_stack_value_for_ins(ins).args[0] for the exit instruction / an arbitrary instruction *)
Definition args_of (ast : list (nat * instr * list sval)) (k : nat) : option (list sval) :=
  option_map (fun '(_, _, a) => a) (find (fun '(k', _, _) => Nat.eqb k' k) ast).

(* ---------------------------------------------------------------- condition trees *)
Inductive cond :=
| CUnknown
| CAnd (a b : cond)
| COr (a b : cond)
| CNot (a : cond)
| CLeaf (op : instr) (pos : nat) (args : list sval).

Fixpoint cond_of (v : sval) : cond :=
  match v with
  | SUnknown => CUnknown
  | SKnown IAnd _ [a; b] _ => CAnd (cond_of a) (cond_of b)
  | SKnown IOr _ [a; b] _ => COr (cond_of a) (cond_of b)
  | SKnown INot _ [a] _ => CNot (cond_of a)
  | SKnown op pos args _ => CLeaf op pos args
  end.

(* _flatten_ast / compute_equations for the declarative statements: leaves of the maximal And spine *)
Fixpoint and_leaves_c (c : cond) : list cond :=
  match c with CAnd a b => and_leaves_c a ++ and_leaves_c b | _ => [c] end.
Fixpoint or_leaves_c (c : cond) : list cond :=
  match c with COr a b => or_leaves_c a ++ or_leaves_c b | _ => [c] end.
