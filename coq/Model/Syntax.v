(* Instructions of the model.  Fragment opcodes the analyses inspect have their own constructor;
   every other tealer instruction class is IOther cls params (class name and constructor parameters).
   All class-level data (mnemonic/printing, version, mode, cost, stack arity) come from the
   *generated* table Gen/Tables.v through cls_of / params_of. *)
From Coq Require Import String List NArith ZArith Bool Ascii.
From Tealer Require Import Tables.
Import ListNotations.
Open Scope string_scope.

Inductive intarg := IANum (n : N) | IAName (s : string).

(* transaction field: class name and, for array fields, the index (-1 when taken from the stack) *)
Definition field := (string * option Z)%type.

Inductive param :=
| PInt (n : N)
| PIntOrName (a : intarg)
| PStr (s : string)
| PInts (l : list N)
| PStrs (l : list string)
| PField (f : field)
| PNoneP
| PSInt (z : Z).             (* signed immediate: produced only for the classes of Parse.signed_imm_class (frame_dig / frame_bury) *)

Inductive instr :=
| IPragma (v : N)
| ILabel (l : string)
| IInt (a : intarg)
| IPushInt (a : intarg)
| IIntcblock (cs : list N)
| IIntc (i : N)
| IIntcK (k : N)            (* intc_0 .. intc_3 *)
| IAddr (a : string)
| ITxn (f : field)
| IGtxn (i : N) (f : field)
| IGtxns (f : field)
| IGlobal (f : string)
| IEq | INeq | ILess | ILessE | IGreater | IGreaterE
| IAnd | IOr | INot | IAdd | ISub
| IAssert | IErr | IReturn
| IB (l : string) | IBZ (l : string) | IBNZ (l : string)
| ISwitch (ls : list string) | IMatch (ls : list string)
| ICallsub (l : string) | IRetsub
| ICustomErr
| IOther (cls : string) (ps : list param).

Definition intck_class (k : N) : string :=
  match k with 0%N => "Intc0" | 1%N => "Intc1" | 2%N => "Intc2" | _ => "Intc3" end.

Definition cls_of (i : instr) : string :=
  match i with
  | IPragma _ => "Pragma" | ILabel _ => "Label" | IInt _ => "Int" | IPushInt _ => "PushInt"
  | IIntcblock _ => "Intcblock" | IIntc _ => "Intc" | IIntcK k => intck_class k
  | IAddr _ => "Addr" | ITxn _ => "Txn" | IGtxn _ _ => "Gtxn" | IGtxns _ => "Gtxns" | IGlobal _ => "Global"
  | IEq => "Eq" | INeq => "Neq" | ILess => "Less" | ILessE => "LessE" | IGreater => "Greater" | IGreaterE => "GreaterE"
  | IAnd => "And" | IOr => "Or" | INot => "Not" | IAdd => "Add" | ISub => "Sub"
  | IAssert => "Assert" | IErr => "Err" | IReturn => "Return"
  | IB _ => "B" | IBZ _ => "BZ" | IBNZ _ => "BNZ" | ISwitch _ => "Switch" | IMatch _ => "Match"
  | ICallsub _ => "Callsub" | IRetsub => "Retsub"
  | ICustomErr => "TealerCustomErrInstruction"
  | IOther c _ => c
  end.

Definition params_of (i : instr) : list param :=
  match i with
  | IPragma v => [PInt v] | ILabel l => [PStr l]
  | IInt a => [PIntOrName a] | IPushInt a => [PIntOrName a]
  | IIntcblock cs => [PInts cs] | IIntc n => [PInt n] | IIntcK _ => []
  | IAddr a => [PStr a]
  | ITxn f => [PField f] | IGtxn n f => [PInt n; PField f] | IGtxns f => [PField f]
  | IGlobal f => [PField (f, None)]
  | IB l | IBZ l | IBNZ l | ICallsub l => [PStr l]
  | ISwitch ls | IMatch ls => [PStrs ls]
  | IOther _ ps => ps
  | _ => []
  end.

(* inverse direction, used by the parser *)
Definition of_generic (c : string) (ps : list param) : instr :=
  match ps with
  | [] =>
      if c =? "Eq" then IEq else if c =? "Neq" then INeq else if c =? "Less" then ILess
      else if c =? "LessE" then ILessE else if c =? "Greater" then IGreater else if c =? "GreaterE" then IGreaterE
      else if c =? "And" then IAnd else if c =? "Or" then IOr else if c =? "Not" then INot
      else if c =? "Add" then IAdd else if c =? "Sub" then ISub
      else if c =? "Assert" then IAssert else if c =? "Err" then IErr else if c =? "Return" then IReturn
      else if c =? "Retsub" then IRetsub
      else if c =? "Intc0" then IIntcK 0 else if c =? "Intc1" then IIntcK 1
      else if c =? "Intc2" then IIntcK 2 else if c =? "Intc3" then IIntcK 3
      else if c =? "TealerCustomErrInstruction" then ICustomErr
      else IOther c ps
  | [PInt n] =>
      if c =? "Pragma" then IPragma n else if c =? "Intc" then IIntc n else IOther c ps
  | [PIntOrName a] =>
      if c =? "Int" then IInt a else if c =? "PushInt" then IPushInt a else IOther c ps
  | [PInts l] => if c =? "Intcblock" then IIntcblock l else IOther c ps
  | [PStr s] =>
      if c =? "Label" then ILabel s else if c =? "Addr" then IAddr s
      else if c =? "B" then IB s else if c =? "BZ" then IBZ s else if c =? "BNZ" then IBNZ s
      else if c =? "Callsub" then ICallsub s else IOther c ps
  | [PStrs l] => if c =? "Switch" then ISwitch l else if c =? "Match" then IMatch l else IOther c ps
  | [PField f] =>
      if c =? "Txn" then ITxn f else if c =? "Gtxns" then IGtxns f
      else if c =? "Global" then (match f with (n, None) => IGlobal n | _ => IOther c ps end)
      else IOther c ps
  | [PInt n; PField f] => if c =? "Gtxn" then IGtxn n f else IOther c ps
  | _ => IOther c ps
  end.

(* ------------------------------------------------------------------ class table lookups *)
Fixpoint lookup_class_in (l : list cinfo) (c : string) : option cinfo :=
  match l with
  | [] => None
  | ci :: t => if c_name ci =? c then Some ci else lookup_class_in t c
  end.
Definition lookup_class := lookup_class_in classes.

Definition param_nat (p : param) : option nat :=
  match p with PInt n => Some (N.to_nat n) | _ => None end.
Definition param_len (p : param) : option nat :=
  match p with PInts l => Some (length l) | PStrs l => Some (length l) | _ => None end.

Definition eval_aexpr (e : aexpr) (ps : list param) : option nat :=
  match e with
  | AConst n => Some n
  | AImm k plus => match nth_error ps k with Some p => option_map (fun n => n + plus) (param_nat p) | None => None end
  | ALen k plus => match nth_error ps k with Some p => option_map (fun n => n + plus) (param_len p) | None => None end
  | AIfNone k a b => match nth_error ps k with Some PNoneP => Some a | Some _ => Some b | None => None end
  end.

(* stack arity; None models an exception (unknown class / malformed parameters) *)
Definition stack_pop_size (i : instr) : option nat :=
  match lookup_class (cls_of i) with Some ci => eval_aexpr (c_pop ci) (params_of i) | None => None end.
Definition stack_push_size (i : instr) : option nat :=
  match lookup_class (cls_of i) with Some ci => eval_aexpr (c_push ci) (params_of i) | None => None end.
Definition ins_version (i : instr) : option N := option_map c_version (lookup_class (cls_of i)).
Definition ins_mode (i : instr) : option xmode := option_map c_mode (lookup_class (cls_of i)).

Definition param_is_str (p : param) (s : string) : bool :=
  match p with PStr x => x =? s | _ => false end.

Fixpoint eval_cost (cs : list cclause) (self_version : N) (ps : list param) (ver : N) : N :=
  match cs with
  | [] => 0   (* unreachable for the generated tables: every body ends in an unconditional return *)
  | CAlways c :: _ => c
  | CEq v c :: t => if N.eqb ver v then c else eval_cost t self_version ps ver
  | CGe v c :: t => if N.leb v ver then c else eval_cost t self_version ps ver
  | CGt v c :: t => if N.ltb v ver then c else eval_cost t self_version ps ver
  | CLe v c :: t => if N.leb ver v then c else eval_cost t self_version ps ver
  | CLt v c :: t => if N.ltb ver v then c else eval_cost t self_version ps ver
  | CGeSelf c :: t => if N.leb self_version ver then c else eval_cost t self_version ps ver
  | CGeParam v k s c :: t =>
      if N.leb v ver && (match nth_error ps k with Some p => param_is_str p s | None => false end)
      then c else eval_cost t self_version ps ver
  end.
Definition ins_cost (ver : N) (i : instr) : option N :=
  option_map (fun ci => eval_cost (c_cost ci) (c_version ci) (params_of i) ver) (lookup_class (cls_of i)).

(* ------------------------------------------------------------------ printing (Instruction.__str__) *)
Fixpoint digits_of_pos (fuel : nat) (n : N) (acc : string) : string :=
  match fuel with
  | O => acc
  | S f =>
      let d := N.modulo n 10 in
      let acc' := String (ascii_of_N (48 + d)) acc in
      if N.ltb n 10 then acc' else digits_of_pos f (N.div n 10) acc'
  end.
Definition string_of_N (n : N) : string := digits_of_pos (S (N.to_nat (N.log2 n))) n "".
Definition string_of_Z (z : Z) : string :=
  match z with Z.neg p => "-" ++ string_of_N (Npos p) | _ => string_of_N (Z.to_N z) end.

Fixpoint join (sep : string) (l : list string) : string :=
  match l with
  | [] => ""
  | [x] => x
  | x :: t => x ++ sep ++ join sep t
  end.

Definition str_of_intarg (a : intarg) := match a with IANum n => string_of_N n | IAName s => s end.
Definition str_of_field (f : field) : string :=
  match f with
  | (n, None) => n
  | (n, Some i) => if Z.ltb i 0 then n else n ++ " " ++ string_of_Z i
  end.
Definition str_of_param (p : param) : string :=
  match p with
  | PInt n => string_of_N n
  | PIntOrName a => str_of_intarg a
  | PStr s => s
  | PInts l => join " " (map string_of_N l)
  | PStrs l => join " " l
  | PField f => str_of_field f
  | PNoneP => "None"
  | PSInt z => string_of_Z z
  end.
Definition list_of_param (p : param) : list string :=
  match p with
  | PInts l => map string_of_N l
  | PStrs l => l
  | _ => []
  end.

Definition lower_ascii (c : ascii) : ascii :=
  let n := nat_of_ascii c in
  if (Nat.leb 65 n && Nat.leb n 90)%bool then ascii_of_nat (n + 32) else c.
Fixpoint lower (s : string) : string :=
  match s with EmptyString => EmptyString | String c t => String (lower_ascii c) (lower t) end.

Fixpoint drop_last (s : string) : string :=
  match s with
  | EmptyString => EmptyString
  | String c EmptyString => EmptyString
  | String c t => String c (drop_last t)
  end.
Definition unquote (s : string) : string :=   (* s[1:][:-1] *)
  match s with EmptyString => EmptyString | String _ t => drop_last t end.

(* ' '.join([head] + list): pieces are concatenated, a PJoin piece contributes " x" per element *)
Definition str_piece (cls : string) (ps : list param) (p : spiece) : string :=
  match p with
  | PLit s => s
  | PParam k => match nth_error ps k with Some q => str_of_param q | None => "?" end
  | PParamUnquoted k => match nth_error ps k with Some q => unquote (str_of_param q) | None => "?" end
  | PJoin k => match nth_error ps k with
               | Some q => String.concat "" (map (fun x => " " ++ x) (list_of_param q))
               | None => "?" end
  | PClsLower => lower cls
  end.
Definition str_pieces cls ps (l : list spiece) : string := String.concat "" (map (str_piece cls ps) l).

Definition str_of_instr (i : instr) : string :=
  let c := cls_of i in let ps := params_of i in
  match lookup_class c with
  | None => "?" ++ c
  | Some ci =>
      match c_str ci with
      | FPlain l => str_pieces c ps l
      | FIfSome k l1 l2 =>
          match nth_error ps k with
          | Some PNoneP => str_pieces c ps l2
          | _ => str_pieces c ps l1
          end
      end
  end.

(* ------------------------------------------------------------------ classification used by the CFG builder *)
Definition is_label (i : instr) : option string := match i with ILabel l => Some l | _ => None end.
Definition is_callsub (i : instr) : option string := match i with ICallsub l => Some l | _ => None end.
Definition is_retsub (i : instr) : bool := match i with IRetsub => true | _ => false end.
Definition is_b (i : instr) : bool := match i with IB _ => true | _ => false end.
(* B, Err, Return, Retsub: no default (fall-through) successor *)
Definition no_fallthrough (i : instr) : bool :=
  match i with IB _ | IErr | IReturn | IRetsub => true | _ => false end.
Definition jump_labels (i : instr) : list string :=
  match i with
  | IB l | IBZ l | IBNZ l => [l]
  | ISwitch ls | IMatch ls => ls
  | _ => []
  end.
