(* Model of tealer/utils/regex/regex.py: _find_label, _is_equal, _is_match, _successors, _find_instructions, match_regex. *)
From Coq Require Import String List NArith Bool Arith.
From Tealer Require Import Tables Syntax Parse Cfg Analysis.
Import ListNotations.
Open Scope string_scope.
Open Scope list_scope.

(* _is_equal: same class and same printed text *)
Definition is_equal (a b : instr) : bool := (cls_of a =? cls_of b) && (str_of_instr a =? str_of_instr b).

(* the unique successor used by the straight-line matcher: Instruction.next (NOT _successors: a pattern runs
   across a callsub to the instruction after it) *)
Definition single_next (p : prog) (k : nat) : option nat :=
  match ins_next p k with Some [n] => Some n | _ => None end.

(* _is_match: the pattern occurs at position cur (None = no current instruction) *)
Fixpoint is_match (p : prog) (cur : option nat) (regex : list instr) : bool :=
  match regex with
  | [] => true
  | r :: rest =>
      match cur with
      | None => false
      | Some k =>
          match op_at p k with
          | None => false
          | Some i => if is_equal i r then is_match p (single_next p k) rest else false
          end
      end
  end.

(* the matched instructions, in order *)
Fixpoint collect_match (p : prog) (k : nat) (n : nat) : list nat :=
  match n with
  | O => [k]
  | S m => k :: match single_next p k with Some k' => collect_match p k' m | None => [] end
  end.

(* _successors: Instruction.next, plus for a callsub the first instruction of the called subroutine
   (ins.called_subroutine.entry.entry_instr = the label instruction labels[name]: a label always starts its block).
   The fall-through successor comes first, the callee entry last.  A label that does not resolve is the
   KeyError case of parse_teal (cannot happen for a parsed program). *)
Definition callee_label (i : instr) : option string :=
  match i with ICallsub l => Some l | _ => None end.

Definition rx_next (p : prog) (k : nat) : option (list nat) :=
  match ins_next p k, op_at p k with
  | Some nx, Some i =>
      match callee_label i with
      | Some l => match find_label p l with Some e => Some (nx ++ [e]) | None => None end
      | None => Some nx
      end
  | _, _ => None
  end.

Record rstate := mkR { r_visited : list nat; r_matches : list (list nat); r_covered : list nat }.

(* _find_instructions with the shared mutable sets threaded through *)
Fixpoint find_instructions (fuel : nat) (p : prog) (regex : list instr) (cur : nat) (st : rstate) : outcome (bool * rstate) :=
  match fuel with
  | O => OutOfFuel
  | S fu =>
      if nat_mem cur (r_visited st) then Done (false, st) else
      let st1 := mkR (cur :: r_visited st) (r_matches st) (r_covered st) in
      let '(reaches0, st2) :=
        if is_match p (Some cur) regex
        then (true, mkR (r_visited st1) (r_matches st1 ++ [collect_match p cur (pred (length regex))]) (r_covered st1))
        else (false, st1) in
      match rx_next p cur with
      | None => Exn "KeyError: label"
      | Some nx =>
          fold_left (fun acc n =>
                       match acc with
                       | Done (reaches, s) =>
                           if nat_mem n (r_covered s) then Done (reaches, s) else
                           match find_instructions fu p regex n s with
                           | Done (true, s') => Done (true, mkR (r_visited s') (r_matches s') (cur :: r_covered s'))
                           | Done (false, s') => Done (reaches, s')
                           | Exn e => Exn e
                           | OutOfFuel => OutOfFuel
                           end
                       | x => x
                       end) nx (Done (reaches0, st2))
      end
  end.

(* _find_label over the retained instructions *)
Definition find_regex_label (t : teal) (label : string) : option nat :=
  if label =? "*" then hd_error (t_retained_ins t)
  else find (fun k => match op_at (t_prog t) k with Some (ILabel l) => l =? label | _ => false end) (t_retained_ins t).

(* ---------------------------------------------------------------- the backward closure of match_regex
   predecessors: for ins in visited: for next_ins in _successors(ins): predecessors[next_ins].append(ins).
   The table pairs every visited position with its successor list; predecessors[k] = the visited positions
   whose successor list contains k (the order is irrelevant: the result is a set). *)
Definition next_table (p : prog) (visited : list nat) : list (nat * option (list nat)) :=
  map (fun j => (j, rx_next p j)) visited.

Definition prevs_in (tbl : list (nat * option (list nat))) (k : nat) : list nat :=
  map fst (filter (fun e => match snd e with Some nx => nat_mem k nx | None => false end) tbl).

(* predecessors[k] *)
Definition ins_prevs (p : prog) (visited : list nat) (k : nat) : list nat := prevs_in (next_table p visited) k.

(* for prev_ins in predecessors[ins]: if prev_ins not in reaches_match: add, append.
   state = (worklist as a stack: head = last element of the Python list, reaches_match) *)
Definition back_push (st : list nat * list nat) (j : nat) : list nat * list nat :=
  if nat_mem j (snd st) then st else (j :: fst st, j :: snd st).

(* while worklist: ins = worklist.pop(); ...   prev = the predecessor map.
   Every iteration pops one element and every pushed element is new in reaches_match (a subset of visited),
   so length worklist + length visited + 1 iterations suffice (RegexLemmas.back_close_spec). *)
Fixpoint back_close (fuel : nat) (prev : nat -> list nat) (wl acc : list nat) : list nat :=
  match fuel with
  | O => acc
  | S fu =>
      match wl with
      | [] => acc
      | k :: wl' =>
          let st := fold_left back_push (prev k) (wl', acc) in
          back_close fu prev (fst st) (snd st)
      end
  end.

(* [match[0] for match in matches]; a match is never empty *)
Definition match_heads (ms : list (list nat)) : list nat :=
  flat_map (fun m => match m with k :: _ => [k] | [] => [] end) ms.

(* reaches_match: the worklist starts with the first instruction of every match (popped from the end) *)
Definition reaches_match (p : prog) (visited : list nat) (ms : list (list nat)) : list nat :=
  let hs := match_heads ms in
  let tbl := next_table p visited in
  back_close (length hs + length visited + 1) (prevs_in tbl) (rev hs) [].

(* covered |= reaches_match: returned as a list, duplicates allowed (the driver sorts and dedups) *)
Definition match_regex (fuel : nat) (t : teal) (label : string) (regex : list instr) : outcome (list (list nat) * list nat) :=
  match find_regex_label t label with
  | None => Done ([], [])
  | Some start =>
      match find_instructions fuel (t_prog t) regex start (mkR [] [] []) with
      | Done (_, st) => Done (r_matches st, r_covered st ++ reaches_match (t_prog t) (r_visited st) (r_matches st))
      | Exn e => Exn e
      | OutOfFuel => OutOfFuel
      end
  end.
