(* Model of tealer/utils/regex/regex.py: _find_label, _is_equal, _is_match, _find_instructions, match_regex. *)
From Coq Require Import String List NArith Bool Arith.
From Tealer Require Import Tables Syntax Parse Cfg Analysis.
Import ListNotations.
Open Scope string_scope.
Open Scope list_scope.

(* _is_equal: same class and same printed text *)
Definition is_equal (a b : instr) : bool := (cls_of a =? cls_of b) && (str_of_instr a =? str_of_instr b).

(* the unique successor used by the straight-line matcher *)
Definition single_next (p : prog) (k : nat) : option nat :=
  match ins_next p k with Some [n] => Some n | _ => None end.

(* _is_match: the pattern occurs at position cur (None = no current instruction) *)
Fixpoint is_match (p : prog) (cur : option nat) (regex : list instr) : bool :=
  match regex with
  | [] => true
  | r :: rest =>
      match cur with
      | None => false
      | Some k =>
          match op_at p k with
          | None => false
          | Some i => if is_equal i r then is_match p (single_next p k) rest else false
          end
      end
  end.

(* the matched instructions, in order *)
Fixpoint collect_match (p : prog) (k : nat) (n : nat) : list nat :=
  match n with
  | O => [k]
  | S m => k :: match single_next p k with Some k' => collect_match p k' m | None => [] end
  end.

Record rstate := mkR { r_visited : list nat; r_matches : list (list nat); r_covered : list nat }.

(* _find_instructions with the shared mutable sets threaded through *)
Fixpoint find_instructions (fuel : nat) (p : prog) (regex : list instr) (cur : nat) (st : rstate) : outcome (bool * rstate) :=
  match fuel with
  | O => OutOfFuel
  | S fu =>
      if nat_mem cur (r_visited st) then Done (false, st) else
      let st1 := mkR (cur :: r_visited st) (r_matches st) (r_covered st) in
      let '(reaches0, st2) :=
        if is_match p (Some cur) regex
        then (true, mkR (r_visited st1) (r_matches st1 ++ [collect_match p cur (pred (length regex))]) (r_covered st1))
        else (false, st1) in
      match ins_next p cur with
      | None => Exn "KeyError: label"
      | Some nx =>
          fold_left (fun acc n =>
                       match acc with
                       | Done (reaches, s) =>
                           if nat_mem n (r_covered s) then Done (reaches, s) else
                           match find_instructions fu p regex n s with
                           | Done (true, s') => Done (true, mkR (r_visited s') (r_matches s') (cur :: r_covered s'))
                           | Done (false, s') => Done (reaches, s')
                           | Exn e => Exn e
                           | OutOfFuel => OutOfFuel
                           end
                       | x => x
                       end) nx (Done (reaches0, st2))
      end
  end.

(* _find_label over the retained instructions *)
Definition find_regex_label (t : teal) (label : string) : option nat :=
  if label =? "*" then hd_error (t_retained_ins t)
  else find (fun k => match op_at (t_prog t) k with Some (ILabel l) => l =? label | _ => false end) (t_retained_ins t).

Definition match_regex (fuel : nat) (t : teal) (label : string) (regex : list instr) : outcome (list (list nat) * list nat) :=
  match find_regex_label t label with
  | None => Done ([], [])
  | Some start =>
      match find_instructions fuel (t_prog t) regex start (mkR [] [] []) with
      | Done (_, st) => Done (r_matches st, r_covered st)
      | Exn e => Exn e
      | OutOfFuel => OutOfFuel
      end
  end.
