(* Request handlers of the extracted driver: each takes text and returns one JSON line. *)
From Coq Require Import String List NArith ZArith Bool Arith Ascii.
From Tealer Require Import Tables LeafPrelude Leaves Syntax Parse Cfg StackAst Keys Analysis Domains Detect Regex Group Output.
Import ListNotations.
Open Scope string_scope.

Definition nat_str (n : nat) : string := string_of_N (N.of_nat n).

Fixpoint json_escape (s : string) : string :=
  match s with
  | EmptyString => EmptyString
  | String c t =>
      let n := nat_of_ascii c in
      if Nat.eqb n 34 then String "\" (String """" (json_escape t))
      else if Nat.eqb n 92 then String "\" (String "\" (json_escape t))
      else if Nat.ltb n 32 then "\u00" ++ String (ascii_of_nat (48 + n / 16)) (String (ascii_of_nat (let d := n mod 16 in if Nat.ltb d 10 then 48 + d else 87 + d)) (json_escape t))
      else String c (json_escape t)
  end.
Definition jstr (s : string) : string := """" ++ json_escape s ++ """".
Definition jlist (l : list string) : string := "[" ++ join "," l ++ "]".
Definition jnats (l : list nat) : string := jlist (map nat_str l).
Definition jobj (l : list (string * string)) : string :=
  "{" ++ join "," (map (fun '(k, v) => jstr k ++ ":" ++ v) l) ++ "}".

(* ---- sorting for canonical output *)
Fixpoint insert_by {A} (ltb : A -> A -> bool) (x : A) (l : list A) : list A :=
  match l with [] => [x] | y :: t => if ltb x y then x :: l else y :: insert_by ltb x t end.
Definition sort_by {A} (ltb : A -> A -> bool) (l : list A) : list A := fold_right (insert_by ltb) [] l.
Fixpoint dedup_adj {A} (eqb : A -> A -> bool) (l : list A) : list A :=
  match l with
  | x :: ((y :: _) as t) => if eqb x y then dedup_adj eqb t else x :: dedup_adj eqb t
  | _ => l
  end.
Definition canon_z (l : list Z) : list Z := dedup_adj Z.eqb (sort_by Z.ltb l).
Definition canon_s (l : list string) : list string := dedup_adj String.eqb (sort_by string_ltb l).

Definition mode_str (m : xmode) : string :=
  match m with MStateless => "Stateless" | MStateful => "Stateful" | MAny => "Any" end.

Definition block_json (p : prog) (b : block) : string :=
  let inss := flat_map (fun k => match nth_error p k with Some i => [i] | None => [] end) (b_ins b) in
  jobj [("idx", nat_str (b_idx b));
        ("lines", jnats (map i_line inss));
        ("ins", jlist (map (fun i => jstr (str_of_instr (i_op i))) inss));
        ("next", jnats (b_next b));
        ("prev", jnats (b_prev b))].

Definition sub_json (s : subroutine) : string :=
  jobj [("name", jstr (s_name s)); ("entry", nat_str (s_entry s)); ("blocks", jnats (s_blocks s));
        ("callers", jnats (s_callers s))].

Definition teal_fields (t : teal) : list (string * string) :=
  [("version", string_of_N (t_version t)); ("mode", jstr (mode_str (t_mode t)));
   ("blocks", jlist (map (block_json (t_prog t)) (t_blocks t)));
   ("main", sub_json (t_main t));
   ("subs", jlist (map sub_json (t_subs t)));
   ("retained_lines", jnats (flat_map (fun k => match nth_error (t_prog t) k with Some i => [i_line i] | None => [] end) (t_retained_ins t)));
   ("intcs", match t_intcs t with Some ((_ :: _) as l) => jlist (map string_of_N l) | _ => "null" end);
   ("flags", let '(fl, _) := verify_version (t_prog t) (t_version t) in
             jlist (map (fun '(ln, k) => jlist [nat_str ln; jstr (match k with FlagIns => "ins" | FlagField => "field" end)]) fl));
   ("mixed", if snd (verify_version (t_prog t) (t_version t)) then "true" else "false");
   (* what the exporters draw (Model/Output.v): cfg DOT edges, per-routine local edges and call boxes, call graph *)
   ("dot_edges", jlist (map (fun '(a, b) => jnats [a; b]) (full_cfg_edges t)));
   ("dot_path_edges", jlist (map (fun '(a, b) => jnats [a; b]) (path_cfg_edges t)));
   ("dot_subs", jlist (map (fun '(fname, s) =>
        jobj [("file", jstr fname); ("name", jstr (s_name s)); ("nodes", jnats (sub_cfg_nodes t s));
              ("edges", jlist (map (fun '(a, b) => jnats [a; b]) (sub_cfg_edges t s)));
              ("boxes", jlist (map (fun '(c, rp, nm) => jlist [nat_str c; match rp with Some r => nat_str r | None => "null" end; jstr nm])
                                   (sub_cfg_callboxes t s)))]) (sub_cfg_files t)));
   ("callgraph", if callgraph_exported t then jlist (map (fun '(a, b) => jlist [jstr a; jstr b]) (callgraph_edges t)) else "null");
   ("callgraph_nodes", jlist (map jstr (callgraph_nodes t)));
   ("costs", jobj (map (fun b => (nat_str (b_idx b), string_of_N (block_cost t b))) (t_blocks t)));
   ("contract_type", jstr (match t_mode t with MStateful => "ApprovalProgram" | _ => "LogicSig" end));
   ("structured", if forallb (fun b => Nat.leb (length (filter (fun s => nat_mem (b_idx b) (s_blocks s)) (t_main t :: t_subs t))) 1) (t_blocks t) then "true" else "false")].

Definition handle_cfg (src : string) : string :=
  match parse_program src with
  | Err e => jobj [("err", jstr e)]
  | Ok p =>
      match parse_teal p with
      | Err e => jobj [("err", jstr e)]
      | Ok t => jobj (teal_fields t)
      end
  end.

(* ---- context values *)
Definition fam_str (fam : keyfam) : string :=
  match fam with
  | KSelf => "self" | KAtIndex i => "at" ++ string_of_N i | KAbs i => "abs" ++ string_of_N i
  | KRel z => "rel" ++ string_of_Z z
  end.

Definition addr_str (s : sset) : string :=
  (if smem ANY_ADDRESS s then "A" else "") ++ (if smem NO_ADDRESS s then "N" else "") ++ ":" ++
  join "," (canon_s (filter (fun x => negb ((x =? ANY_ADDRESS) || (x =? NO_ADDRESS))) s)).
Definition fee_str (v : feeval) : string := if fee_unknown v then "unk" else string_of_Z (fee_value v).
Definition types_str (l : list string) : string := join "," (canon_s l).
Definition zs_str (l : list Z) : string := join "," (map string_of_Z (canon_z l)).

Definition all_types_str := types_str ALL_TRANSACTION_TYPES.

(* per block: list of (key, value) for non-universal values *)
Definition ctx_entries (r : fn_result) (b : nat) : list (string * string) :=
  let sizes := match Analysis.lookup _ (r_sizes r) b with Some l => zs_str l | None => "?" end in
  let idxs := match Analysis.lookup _ (r_indices r) b with Some l => zs_str l | None => "?" end in
  [("self:GroupSize", jstr sizes); ("self:GroupIndex", jstr idxs)]
  ++ flat_map (fun '(fam, l) =>
                 match Analysis.lookup _ l b with
                 | Some v => let s := types_str v in if s =? all_types_str then [] else [(fam_str fam ++ ":TransactionType", jstr s)]
                 | None => [] end) (r_types r)
  ++ flat_map (fun '(fld, fam, l) =>
                 match Analysis.lookup _ l b with
                 | Some v => let s := addr_str v in if s =? "A:" then [] else [(fam_str fam ++ ":" ++ fld, jstr s)]
                 | None => [] end) (r_addrs r)
  ++ flat_map (fun '(fam, l) =>
                 match Analysis.lookup _ l b with
                 | Some v => let s := fee_str v in if s =? "18446744073709551615" then [] else [(fam_str fam ++ ":Fee", jstr s)]
                 | None => [] end) (r_fees r).

Definition big_fuel : nat := N.to_nat 200000.

Definition handle_analyze (src : string) : string :=
  match parse_program src with
  | Err e => jobj [("err", jstr e)]
  | Ok p =>
      match parse_teal p with
      | Err e => jobj [("err", jstr e)]
      | Ok t =>
          let f := whole_function t in
          match run_all f big_fuel with
          | Exn e => jobj (teal_fields t ++ [("analysis_err", jstr e)])
          | OutOfFuel => jobj (teal_fields t ++ [("analysis_err", jstr "out-of-fuel")])
          | Done r =>
              let ids := map b_idx (fn_blocks f) in
              let ctx := jobj (map (fun b => (nat_str b, jobj (ctx_entries r b))) ids) in
              let paths :=
                jobj (map (fun '(name, checks) =>
                             (name, match run_detector f r big_fuel name checks with
                                    | Done ps => jlist (map jnats ps)
                                    | Exn e => jobj [("err", jstr e)]
                                    | OutOfFuel => jobj [("err", jstr "out-of-fuel")]
                                    end)) detectors) in
              jobj (teal_fields t ++ [("fn_blocks", jnats ids); ("ctx", ctx); ("paths", paths)])
          end
      end
  end.

Definition param_json (p : param) : string :=
  match p with
  | PInt n => string_of_N n
  | PIntOrName (IANum n) => string_of_N n
  | PIntOrName (IAName s) => jstr s
  | PStr s => jstr s
  | PInts l => jlist (map string_of_N l)
  | PStrs l => jlist (map jstr l)
  | PField (n, None) => jobj [("field", jstr n)]
  | PField (n, Some i) => jobj [("field", jstr n); ("idx", string_of_Z i)]
  | PNoneP => "null"
  | PSInt z => string_of_Z z
  end.

Definition opt_nat_json (o : option nat) : string := match o with Some n => nat_str n | None => "null" end.

Definition handle_parseline (version : N) (line : string) : string :=
  match parse_line line with
  | Err e => jobj [("err", jstr e)]
  | Ok None => "null"
  | Ok (Some i) =>
      jobj [("cls", jstr (cls_of i)); ("params", jlist (map param_json (params_of i)));
            ("str", jstr (str_of_instr i));
            ("pop", opt_nat_json (stack_pop_size i)); ("push", opt_nat_json (stack_push_size i));
            ("version", match ins_version i with Some v => string_of_N v | None => "null" end);
            ("mode", match ins_mode i with Some m => jstr (mode_str m) | None => "null" end);
            ("cost", match ins_cost version i with Some c => string_of_N c | None => "null" end)]
  end.

(* ---- regex: pattern lines, label, program *)
Definition lines_of_positions (p : prog) (ks : list nat) : list nat :=
  flat_map (fun k => match nth_error p k with Some i => [i_line i] | None => [] end) ks.

Definition handle_regex (label : string) (pattern : string) (src : string) : string :=
  match parse_program src with
  | Err e => jobj [("err", jstr e)]
  | Ok p =>
      match parse_teal p with
      | Err e => jobj [("err", jstr e)]
      | Ok t =>
          match map_res (fun l => parse_line l) (splitlines pattern) with
          | Err e => jobj [("err", jstr e)]
          | Ok os =>
              let regex := flat_map (fun o => match o with Some i => [i] | None => [] end) os in
              match match_regex big_fuel t label regex with
              | Done (ms, cov) =>
                  jobj [("matches", jlist (map (fun m => jnats (lines_of_positions (t_prog t) m)) ms));
                        ("covered", jnats (sort_by Nat.ltb (dedup_adj Nat.eqb (sort_by Nat.ltb (lines_of_positions (t_prog t) cov)))))]
              | Exn e => jobj [("err", jstr e)]
              | OutOfFuel => jobj [("err", jstr "out-of-fuel")]
              end
          end
      end
  end.

(* ---- ast: reconstructed operand trees of every instruction of every block *)
Fixpoint sval_json (p : prog) (fuel : nat) (v : sval) : string :=
  match fuel with
  | O => jstr "..."
  | S f =>
      match v with
      | SUnknown => jstr "U"
      | SKnown _ pos args out =>
          jlist [nat_str (match nth_error p pos with Some i => i_line i | None => 0 end); nat_str out;
                 jlist (map (sval_json p f) args)]
      end
  end.

Definition handle_ast (src : string) : string :=
  match parse_program src with
  | Err e => jobj [("err", jstr e)]
  | Ok p =>
      match parse_teal p with
      | Err e => jobj [("err", jstr e)]
      | Ok t =>
          jobj (map (fun b =>
                       (nat_str (b_idx b),
                        match emulate (t_prog t) (b_ins b) [] with
                        | None => jobj [("err", jstr "arity")]
                        | Some ast =>
                            jobj (map (fun '(k, _, args) =>
                                         (nat_str (match nth_error (t_prog t) k with Some i => i_line i | None => 0 end),
                                          jlist (map (sval_json (t_prog t) 12) args))) ast)
                        end)) (t_blocks t))
      end
  end.

(* ---- functions cut out by a dispatch path, and group verdicts *)
Definition impl_idx (errs : list (nat * (nat * nat))) (b : nat) : string :=
  match find (fun '(e, _) => Nat.eqb e b) errs with
  | Some (_, (nx, _)) => string_of_N (N.of_nat nx * 65536 + N.of_nat nx)
  | None => nat_str b
  end.

Definition function_json (f : func) (errs : list (nat * (nat * nat))) : string :=
  match run_all f big_fuel with
  | Exn e => jobj [("analysis_err", jstr e)]
  | OutOfFuel => jobj [("analysis_err", jstr "out-of-fuel")]
  | Done r =>
      let ids := map b_idx (fn_blocks f) in
      let ix := impl_idx errs in
      jobj [("fn_blocks", jlist (map ix ids));
            ("edges", jobj (map (fun b => (ix (b_idx b), jobj [("next", jlist (map ix (b_next b))); ("prev", jlist (map ix (b_prev b)))])) (fn_blocks f)));
            ("ctx", jobj (map (fun b => (ix b, jobj (ctx_entries r b))) ids));
            ("paths", jobj (map (fun '(name, checks) =>
                                   (name, match run_detector f r big_fuel name checks with
                                          | Done ps => jlist (map (fun p => jlist (map ix p)) ps)
                                          | Exn e => jobj [("err", jstr e)]
                                          | OutOfFuel => jobj [("err", jstr "out-of-fuel")]
                                          end)) detectors))]
  end.

Definition handle_function (path : list nat) (src : string) : string :=
  match parse_program src with
  | Err e => jobj [("err", jstr e)]
  | Ok p =>
      match parse_teal p with
      | Err e => jobj [("err", jstr e)]
      | Ok t =>
          match construct_function t path with
          | Err e => jobj [("err", jstr e)]
          | Ok (f, errs) => function_json f errs
          end
      end
  end.

(* group request: contracts (source, list of (name, path)), transactions; verdict per detector *)
Definition build_functions (contracts : list (string * list (list nat))) : res (list (func * fn_result)) :=
  map_res (fun x => x)
    (flat_map (fun '(src, paths) =>
                 match parse_program src with
                 | Err e => [Err e]
                 | Ok p => match parse_teal p with
                           | Err e => [Err e]
                           | Ok t => map (fun path => match construct_function t path with
                                                      | Err e => Err e
                                                      | Ok (f, _) => match run_all f big_fuel with
                                                                     | Done r => Ok (f, r)
                                                                     | Exn e => Err e
                                                                     | OutOfFuel => Err "out-of-fuel" end
                                                      end) paths
                           end
                 end) contracts).

Definition group_checks : list (string * (bctx -> bool)) :=
  filter (fun '(n, _) => negb (n =? "group-size-check")) detectors.

Definition handle_group (contracts : list (string * list (list nat))) (group : list gtxn) : string :=
  match build_functions contracts with
  | Err e => jobj [("err", jstr e)]
  | Ok funcs =>
      jobj (map (fun '(name, checks) =>
                   let '(dtype, vt) := match Parse.assoc name detector_table with Some x => x | None => ("", None) end in
                   (name, jlist (map jstr (group_verdict funcs checks dtype vt (map yaml_txn group))))) group_checks)
  end.
