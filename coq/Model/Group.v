(* Model of tealer/teal/parse_functions.py construct_function (dispatch paths) and of the group-mode verdicts
   (tealer/detectors/utils.py detect_missing_tx_field_validations_group_complete,
    tealer/execution_context/transactions.py fill_group_relative_indexes). *)
From Coq Require Import String List NArith ZArith Bool Arith.
From Tealer Require Import Tables LeafPrelude Leaves Syntax Parse Cfg StackAst Keys Analysis Domains Detect.
Import ListNotations.
Open Scope string_scope.
Open Scope list_scope.

(* ---------------------------------------------------------------- construct_function *)
(* walk the dispatch path over the (copied) main graph *)
Fixpoint walk_path (t : teal) (path : list nat) (valid : list nat) (acc : list nat) : res (list nat) :=
  match path with
  | [] => Ok acc
  | bid :: rest =>
      if nat_mem bid valid then
        if nat_mem bid acc then Err "TealerException: Dispatch path is a loop"
        else walk_path t rest (match tblock t bid with Some b => b_next b | None => [] end) (acc ++ [bid])
      else Err "TealerException: Invalid dispatch path"
  end.

Fixpoint remove_first_nat (x : nat) (l : list nat) : list nat :=
  match l with [] => [] | y :: t => if Nat.eqb x y then t else y :: remove_first_nat x t end.

(* err blocks get fresh ids base, base+1, ...; [origin] remembers (off-path successor, path block) for the
   implementation's id and line formulas *)
Record fstate := mkFS { fs_blocks : list block; fs_prog : prog; fs_next_id : nat; fs_errs : list (nat * (nat * nat)) }.

Definition set_block (bs : list block) (b : block) : list block :=
  map (fun x => if Nat.eqb (b_idx x) (b_idx b) then b else x) bs.
Definition get_blk (bs : list block) (n : nat) : option block := find (fun b => Nat.eqb (b_idx b) n) bs.

(* replace every successor of bi other than valid_next by a fresh err block *)
Definition cut_block (st : fstate) (bi valid_next : nat) : fstate :=
  match get_blk (fs_blocks st) bi with
  | None => st
  | Some b =>
      fold_left (fun s nx =>
                   if Nat.eqb nx valid_next then s else
                   let eid := fs_next_id s in
                   let epos := length (fs_prog s) in
                   let eb := mkBlock eid [epos] [] [bi] in
                   (* bi.next[j] := err ; bi_next.prev.remove(bi) *)
                   let bs1 := match get_blk (fs_blocks s) bi with
                              | Some cur => set_block (fs_blocks s) (mkBlock bi (b_ins cur) (map (fun y => if Nat.eqb y nx then eid else y) (b_next cur)) (b_prev cur))
                              | None => fs_blocks s end in
                   let bs2 := match get_blk bs1 nx with
                              | Some nb => set_block bs1 (mkBlock nx (b_ins nb) (b_next nb) (remove_first_nat bi (b_prev nb)))
                              | None => bs1 end in
                   mkFS (bs2 ++ [eb]) (fs_prog s ++ [mkIns 0 ICustomErr]) (S eid) (fs_errs s ++ [(eid, (nx, bi))]))
                (b_next b) st
  end.

Fixpoint cut_path (st : fstate) (path : list nat) : fstate :=
  match path with
  | a :: ((b :: _) as rest) => cut_path (cut_block st a b) rest
  | _ => st
  end.

Definition max_idx (bs : list block) : nat := fold_left (fun m b => Nat.max m (b_idx b)) bs 0.

(* DFS over an explicit block list (identify_subroutine_blocks on the modified copy) *)
Fixpoint dfs_list (fuel : nat) (bs : list block) (stack visited : list nat) : list nat :=
  match fuel with
  | O => visited
  | S f =>
      match stack with
      | [] => visited
      | _ =>
          let bb := List.last stack 0 in
          let stack1 := removelast stack in
          let visited1 := visited ++ [bb] in
          let nx := match get_blk bs bb with Some b => b_next b | None => [] end in
          let stack2 := fold_left (fun stk nb => if (nat_mem nb visited1 || nat_mem nb stk)%bool then stk else stk ++ [nb]) nx stack1 in
          dfs_list f bs stack2 visited1
      end
  end.

Definition construct_function (t : teal) (path : list nat) : res (func * list (nat * (nat * nat))) :=
  match walk_path t path [0] [] with
  | Err e => Err e
  | Ok pblocks =>
      match pblocks with
      | [] => Err "IndexError: empty dispatch path"
      | entry :: _ =>
          let main0 := flat_map (fun n => match tblock t n with Some b => [b] | None => [] end) (s_blocks (t_main t)) in
          let st0 := mkFS main0 (t_prog t) (S (max_idx (t_blocks t))) [] in
          let st := cut_path st0 pblocks in
          let main_ids := dfs_list (S (length (fs_blocks st))) (fs_blocks st) [entry] [] in
          (* the repaired code drops predecessors that are no longer part of the function *)
          let main_blocks := flat_map (fun n => match get_blk (fs_blocks st) n with
                                                | Some b => [mkBlock (b_idx b) (b_ins b) (b_next b) (filter (fun p => nat_mem p main_ids) (b_prev b))]
                                                | None => [] end) main_ids in
          let t' := t in
          let called := dedup_first
                          (flat_map (fun b => match b_ins b with
                                              | [] => []
                                              | l => match op_at (fs_prog st) (List.last l 0) with Some (ICallsub n) => [n] | _ => [] end
                                              end) main_blocks) in
          let used := used_subs (S (length (t_subs t'))) t' called called in
          let subs := flat_map (fun n => match find_sub t' n with Some s => [s] | None => [] end) used in
          let sub_blocks := flat_map (fun n => match tblock t' n with Some b => [b] | None => [] end) (flat_map s_blocks subs) in
          Ok (mkFunc (fs_prog st) (main_blocks ++ sub_blocks) entry main_ids subs (t_subs t') (t_intcs t'), fs_errs st)
      end
  end.

(* ---------------------------------------------------------------- group configuration *)
Record gtxn := mkTxn {
  g_id : string;
  g_type : string;                    (* TransactionType name: Pay KeyReg Acfg Axfer Afrz Appl Any *)
  g_has_logic_sig : bool;
  g_logic_sig : option nat;           (* index into the function table *)
  g_application : option nat;
  g_abs : option N;
  g_rel : list (Z * string) }.        (* offset -> other transaction id (dict: a later same offset overwrites) *)

(* Transaction.relative_indexes is a dict keyed by offset: the last entry for an offset wins *)
Fixpoint dict_set {A} (k : Z) (v : A) (l : list (Z * A)) : list (Z * A) :=
  match l with
  | [] => [(k, v)]
  | (k', v') :: t => if Z.eqb k k' then (k, v) :: t else (k', v') :: dict_set k v t
  end.
Definition rel_dict (t : gtxn) : list (Z * string) := fold_left (fun d '(k, v) => dict_set k v d) (g_rel t) [].

(* The configuration FILE lists relative_indexes as entries {other_txn_id, offset}.  GroupConfigTransaction.from_yaml reads
   them into a dict keyed by other_txn_id (a later entry for the same id replaces the offset IN PLACE) and
   init_tealer_from_config then walks that dict.  yaml_rel gives the (offset, id) pairs in the order of that dict; yaml_txn
   applies it to a transaction whose g_rel is the listing of the file (the request format of the correspondence). *)
Fixpoint sdict_put (k : string) (v : Z) (l : list (string * Z)) : list (string * Z) :=
  match l with
  | [] => [(k, v)]
  | (k', v') :: t => if k' =? k then (k', v) :: t else (k', v') :: sdict_put k v t
  end.
Definition yaml_dict (l : list (Z * string)) : list (string * Z) := fold_left (fun d '(off, id) => sdict_put id off d) l [].
Definition yaml_rel (l : list (Z * string)) : list (Z * string) := map (fun '(id, off) => (off, id)) (yaml_dict l).
Definition yaml_txn (t : gtxn) : gtxn :=
  mkTxn (g_id t) (g_type t) (g_has_logic_sig t) (g_logic_sig t) (g_application t) (g_abs t) (yaml_rel (g_rel t)).

(* group_relative_indexes[txn] = { other : offset | other.relative_indexes[offset] = txn }, in the order the
   code fills it (transactions in order, offsets in dict order; a later entry for the same other overwrites) *)
Definition relative_accessors (group : list gtxn) (t : gtxn) : list (string * Z) :=
  fold_left (fun acc other =>
               fold_left (fun acc2 '(off, target) =>
                            if target =? g_id t then
                              (if existsb (fun '(o, _) => o =? g_id other) acc2
                               then map (fun '(o, x) => if o =? g_id other then (o, off) else (o, x)) acc2
                               else acc2 ++ [(g_id other, off)])
                            else acc2) (rel_dict other) acc)
            group [].

Section Verdict.
  Variable funcs : list (func * fn_result).     (* analysed functions *)
  Variable checks : bctx -> bool.
  Variable dtype : string.                        (* STATELESS / STATEFULL / STATELESS_AND_STATEFULL *)
  Variable vtypes : option (list string).        (* vulnerable transaction types *)

  Definition fn_leaves (f : func) : list nat :=
    map b_idx (filter (fun b => leaf_global f b) (fn_blocks f)).

  Definition checks_its_field (k : nat) (abs : option N) : bool :=
    match nth_error funcs k with
    | Some (f, r) => forallb (fun b => validated_in_block r checks abs b) (fn_leaves f)
    | None => false
    end.
  Definition checks_abs (k : nat) (i : N) : bool :=
    match nth_error funcs k with
    | Some (f, r) => forallb (fun b => checks (ctx_of r b (KAbs i))) (fn_leaves f)
    | None => false
    end.
  Definition checks_rel (k : nat) (off : Z) : bool :=
    match nth_error funcs k with
    | Some (f, r) => forallb (fun b => checks (ctx_of r b (KRel off))) (fn_leaves f)
    | None => false
    end.

  Definition opt_check (o : option nat) (g : nat -> bool) : bool := match o with Some k => g k | None => false end.

  Definition txn_vulnerable (group : list gtxn) (t : gtxn) : bool :=
    if (dtype =? "STATELESS") && negb (g_has_logic_sig t) then false
    else if (dtype =? "STATEFULL") && (match g_application t with None => true | Some _ => false end) then false
    else if match vtypes with Some l => negb (smem (g_type t) l) | None => false end then false
    else if opt_check (g_logic_sig t) (fun k => checks_its_field k (g_abs t)) then false
    else if opt_check (g_application t) (fun k => checks_its_field k (g_abs t)) then false
    else if match g_abs t with
            | Some i => existsb (fun o => opt_check (g_logic_sig o) (fun k => checks_abs k i) || opt_check (g_application o) (fun k => checks_abs k i)) group
            | None => false end then false
    else if existsb (fun '(oid, off) =>
                       match find (fun o => g_id o =? oid) group with
                       | Some o => opt_check (g_logic_sig o) (fun k => checks_rel k off) || opt_check (g_application o) (fun k => checks_rel k off)
                       | None => false end) (relative_accessors group t) then false
    else true.

  Definition group_verdict (group : list gtxn) : list string :=
    map g_id (filter (txn_vulnerable group) group).
End Verdict.
