(* Value types and small helpers the generated leaf functions (Gen/Leaves.v) are expressed in.
   Python ints -> Z, Python set/list of str -> duplicate-free sorted list (sset), bool -> bool. *)
From Coq Require Import String List ZArith Bool Ascii.
Import ListNotations.
Open Scope string_scope.

(* ---- comparison instruction classes: Eq, Neq, Less, LessE, Greater, GreaterE; anything else is COther *)
Inductive cmpop := CEq | CNeq | CLess | CLessE | CGreater | CGreaterE | COther.
Definition is_Eq c := match c with CEq => true | _ => false end.
Definition is_Neq c := match c with CNeq => true | _ => false end.
Definition is_Less c := match c with CLess => true | _ => false end.
Definition is_LessE c := match c with CLessE => true | _ => false end.
Definition is_Greater c := match c with CGreater => true | _ => false end.
Definition is_GreaterE c := match c with CGreaterE => true | _ => false end.

(* ---- FeeValue dataclass *)
Record feeval := mkFee { fee_unknown : bool; fee_value : Z }.
Definition feeval_eqb (a b : feeval) : bool :=
  Bool.eqb (fee_unknown a) (fee_unknown b) && Z.eqb (fee_value a) (fee_value b).

(* ---- string order and sets of strings *)
Fixpoint string_ltb (a b : string) : bool :=
  match a, b with
  | EmptyString, EmptyString => false
  | EmptyString, String _ _ => true
  | String _ _, EmptyString => false
  | String c a', String d b' =>
      if Nat.ltb (nat_of_ascii c) (nat_of_ascii d) then true
      else if Nat.ltb (nat_of_ascii d) (nat_of_ascii c) then false
      else string_ltb a' b'
  end.

Definition sset := list string.
Fixpoint sset_insert (x : string) (s : sset) : sset :=
  match s with
  | [] => [x]
  | y :: t => if String.eqb x y then s else if string_ltb x y then x :: s else y :: sset_insert x t
  end.
Definition set_of_list (l : list string) : sset := fold_right sset_insert [] l.
Definition smem (x : string) (s : list string) : bool := existsb (String.eqb x) s.
Definition set_union (a b : sset) : sset := fold_right sset_insert b a.
Definition set_inter (a b : sset) : sset := filter (fun x => smem x b) a.
Definition set_diff (a b : sset) : sset := filter (fun x => negb (smem x b)) a.
Fixpoint sset_eqb (a b : sset) : bool :=
  match a, b with
  | [], [] => true
  | x :: a', y :: b' => String.eqb x y && sset_eqb a' b'
  | _, _ => false
  end.

(* ---- `in` *)
Class Mem (A : Type) := mem_any : A -> list A -> bool.
#[export] Instance Mem_string : Mem string := smem.
#[export] Instance Mem_Z : Mem Z := fun x l => existsb (Z.eqb x) l.

Fixpoint remove_first (x : Z) (l : list Z) : list Z :=
  match l with
  | [] => []
  | y :: t => if Z.eqb x y then t else y :: remove_first x t
  end.

(* list(range(a, b)) *)
Definition zrange (a b : Z) : list Z := map (fun i => (a + Z.of_nat i)%Z) (seq 0 (Z.to_nat (b - a))).

(* ---- BlockTransactionContext as the detectors read it *)
Record addrval := mkAddrVal { av_any : bool; av_no : bool; av_possible : list string }.
Record bctx := mkBctx {
  ctx_rekeyto : addrval; ctx_closeto : addrval; ctx_assetcloseto : addrval; ctx_sender : addrval;
  ctx_transaction_types : list string;
  ctx_max_fee : Z; ctx_max_fee_unknown : bool;
  ctx_group_sizes : list Z; ctx_group_indices : list Z;
  ctx_is_gtxn_context : bool }.
