(* Model of transaction_context/generic.py: _get_asserted, block/edge constraints, the forward and
   backward worklist solvers with call-site refinement, run_analysis for one key. *)
From Coq Require Import String List NArith ZArith Bool Arith.
From Tealer Require Import Tables Syntax Parse Cfg StackAst Keys.
Import ListNotations.
Open Scope string_scope.
Open Scope list_scope.

(* ---------------------------------------------------------------- functions (tealer.teal.functions.Function) *)
Record func := mkFunc {
  fn_prog : prog;
  fn_blocks : list block;          (* all blocks of the function, function.blocks order *)
  fn_entry : nat;
  fn_main : list nat;              (* ids of the function's __main__ blocks *)
  fn_subs : list subroutine;       (* function.subroutines (used subroutines) *)
  fn_all_subs : list subroutine;   (* contract subroutines: block -> subroutine assignment *)
  fn_intcs : option (list N) }.

Definition fblock (f : func) (n : nat) : option block := find (fun b => Nat.eqb (b_idx b) n) (fn_blocks f).
Definition fexit_op (f : func) (b : block) : option instr :=
  match b_ins b with [] => None | l => op_at (fn_prog f) (List.last l 0) end.
Definition f_is_callsub (f : func) (b : block) : bool :=
  match fexit_op f b with Some (ICallsub _) => true | _ => false end.
Definition f_is_retsub (f : func) (b : block) : bool :=
  match fexit_op f b with Some IRetsub => true | _ => false end.

(* name of the subroutine a block belongs to; "" = the function's main *)
Definition f_sub_of (f : func) (n : nat) : option string :=
  if nat_mem n (fn_main f) then Some ""
  else option_map s_name (find (fun s => nat_mem n (s_blocks s)) (rev (fn_all_subs f))).

Definition f_find_sub (f : func) (name : string) : option subroutine :=
  find (fun s => s_name s =? name) (fn_all_subs f).
Definition f_used_sub (f : func) (name : string) : option subroutine :=
  find (fun s => s_name s =? name) (fn_subs f).

(* Function._subroutine_caller_blocks[sub]: callsub blocks of the function calling sub, function.blocks order *)
Definition f_callers (f : func) (name : string) : list block :=
  filter (fun b => match fexit_op f b with Some (ICallsub l) => l =? name | _ => false end) (fn_blocks f).
Definition f_return_points (f : func) (name : string) : list nat :=
  flat_map (fun b => match b_next b with [r] => [r] | _ => [] end) (f_callers f name).

(* Subroutine.retsub_blocks: computed from the parse-time graph *)
Definition sub_retsub_blocks (f : func) (s : subroutine) : list nat :=
  filter (fun n => match fblock f n with Some b => f_is_retsub f b | None => false end) (s_blocks s).

Definition sub_entry_of (f : func) (name : string) : option nat :=
  if name =? "" then Some (fn_entry f) else option_map s_entry (f_find_sub f name).

(* next_blocks_global; None = KeyError / exception *)
Definition next_global (f : func) (b : block) : option (list nat) :=
  if f_is_retsub f b then
    match f_sub_of f (b_idx b) with
    | Some name => match f_used_sub f name with Some _ => Some (f_return_points f name) | None => None end
    | None => None
    end
  else match fexit_op f b with
       | Some (ICallsub l) => option_map (fun s => [s_entry s]) (f_find_sub f l)
       | _ => Some (b_next b)
       end.

Definition is_sub_return_point (f : func) (b : block) : bool :=
  existsb (fun p => match fblock f p with Some pb => f_is_callsub f pb | None => false end) (b_prev b).
Definition callsub_block_of (f : func) (b : block) : option nat :=
  find (fun p => match fblock f p with Some pb => f_is_callsub f pb | None => false end) (b_prev b).

Definition prev_global (f : func) (b : block) : option (list nat) :=
  match f_sub_of f (b_idx b) with
  | None => None
  | Some name =>
      if match sub_entry_of f name with Some e => Nat.eqb e (b_idx b) | None => false end then
        if name =? "" then Some []
        else match f_used_sub f name with Some _ => Some (map b_idx (f_callers f name)) | None => None end
      else if is_sub_return_point f b then
        match callsub_block_of f b with
        | Some c =>
            match fblock f c with
            | Some cb => match fexit_op f cb with
                         | Some (ICallsub l) => option_map (sub_retsub_blocks f) (f_find_sub f l)
                         | _ => None end
            | None => None
            end
        | None => None
        end
      else Some (b_prev b)
  end.

Definition leaf_global (f : func) (b : block) : bool :=
  (match b_next b with [] => true | _ => false end) && negb (f_is_retsub f b) && negb (f_is_callsub f b).

Definition sub_return_point (b : block) : option nat := match b_next b with r :: _ => Some r | [] => None end.

(* ---------------------------------------------------------------- outcome of fuelled computations *)
Inductive outcome (A : Type) := Done (a : A) | Exn (e : string) | OutOfFuel.
Arguments Done {A} a. Arguments Exn {A} e. Arguments OutOfFuel {A}.

(* the bz/bnz at position k jumps to the line that follows it (len(exit_instr.next) > 1 for a block with a
   single successor): decided on the jump target, independently of the length of the program *)
Definition branch_to_next (p : prog) (br : instr) (k : nat) : bool :=
  match br with
  | IBZ l | IBNZ l => match find_label p l with Some t => Nat.eqb t (S k) | None => false end
  | _ => false
  end.

Section Domain.
  Variable T : Type.
  Variable t_eqb : T -> T -> bool.
  Variable univ null : T.
  Variable union inter : T -> T -> T.
  (* _get_asserted_single for a leaf *)
  Variable single : instr -> nat -> list sval -> T * T.

  Definition swap (p : T * T) : T * T := (snd p, fst p).
  Definition neg_case (a : cond) (r : T * T) : T * T :=
    match a with CUnknown => (univ, univ) | _ => swap r end.

  (* leaves' results along an And / Or spine: None = unknown leaf *)
  Definition finish_and (l : list (option (T * T))) : T * T :=
    let tv := fold_left (fun acc o => match o with Some (t, _) => inter acc t | None => acc end) l univ in
    let fv := fold_left (fun acc o => match o with Some (_, f) => union acc f | None => acc end) l null in
    (tv, if existsb (fun o => match o with None => true | Some _ => false end) l then univ else fv).
  Definition finish_or (l : list (option (T * T))) : T * T :=
    let fv := fold_left (fun acc o => match o with Some (_, f) => inter acc f | None => acc end) l univ in
    let tv := fold_left (fun acc o => match o with Some (t, _) => union acc t | None => acc end) l null in
    (if existsb (fun o => match o with None => true | Some _ => false end) l then univ else tv, fv).

  (* _get_asserted *)
  Fixpoint asserted (c : cond) : T * T :=
    match c with
    | CUnknown => (univ, univ)
    | CLeaf op pos args => single op pos args
    | CNot a => neg_case a (asserted a)
    | CAnd a b => finish_and (and_parts a ++ and_parts b)
    | COr a b => finish_or (or_parts a ++ or_parts b)
    end
  with and_parts (c : cond) : list (option (T * T)) :=
    match c with
    | CUnknown => [None]
    | CAnd a b => and_parts a ++ and_parts b
    | CLeaf op pos args => [Some (single op pos args)]
    | CNot a => [Some (neg_case a (asserted a))]
    | COr a b => [Some (finish_or (or_parts a ++ or_parts b))]
    end
  with or_parts (c : cond) : list (option (T * T)) :=
    match c with
    | CUnknown => [None]
    | COr a b => or_parts a ++ or_parts b
    | CLeaf op pos args => [Some (single op pos args)]
    | CNot a => [Some (neg_case a (asserted a))]
    | CAnd a b => [Some (finish_and (and_parts a ++ and_parts b))]
    end.

  Variable f : func.

  (* _block_level_constraints for one key *)
  Definition block_constraint (b : block) : option T :=
    match emulate (fn_prog f) (b_ins b) [] with
    | None => None
    | Some ast =>
        Some (fold_left
          (fun acc '(pos, op, args) =>
             match op with
             | IAssert =>
                 match args with
                 | SUnknown :: _ => acc
                 | a :: _ => inter acc (fst (asserted (cond_of a)))
                 | [] => acc
                 end
             | IReturn =>
                 match args with
                 | SUnknown :: _ => acc
                 | (SKnown aop _ _ _ as a) :: _ =>
                     match is_int_push_ins (fn_intcs f) aop with
                     | IntNum 0 => null
                     | _ => inter acc (fst (asserted (cond_of a)))
                     end
                 | [] => acc
                 end
             | IErr | ICustomErr => null
             | _ => acc
             end) ast univ)
    end.

  (* _path_level_constraints: constraint on the edge pred -> succ, None = no entry in path_context (KeyError) *)
  Definition edge_constraint (pred : block) (succ : nat) : option T :=
    match next_global f pred with
    | None => None
    | Some nx =>
        if negb (nat_mem succ nx) then None else
        match fexit_op f pred with
        | Some (IBZ _ as br) | Some (IBNZ _ as br) =>
            match emulate (fn_prog f) (b_ins pred) [] with
            | None => None
            | Some ast =>
                match args_of ast (List.last (b_ins pred) 0) with
                | Some (SUnknown :: _) | Some [] | None => Some univ
                | Some (a :: _) =>
                    let '(tv, fv) := asserted (cond_of a) in
                    let is_bz := match br with IBZ _ => true | _ => false end in
                    match b_next pred with
                    | [j] =>
                        (* single successor: the branch targets the next line (jump and fall-through coincide:
                           no constraint), or it is the last instruction of the contract (only the jump edge).
                           The test does not depend on the length of fn_prog (construct_function appends
                           instructions): it looks at the jump target only. *)
                        if branch_to_next (fn_prog f) br (List.last (b_ins pred) 0) then Some univ
                        else if Nat.eqb succ j then Some (if is_bz then fv else tv) else Some univ
                    | d :: j :: _ =>
                        (* the jump assignment is executed first, the default one second (may overwrite) *)
                        if Nat.eqb succ d then Some (if is_bz then tv else fv)
                        else if Nat.eqb succ j then Some (if is_bz then fv else tv)
                        else Some univ
                    | [] => None
                    end
                end
            end
        | _ => Some univ
        end
    end.

  (* state: association list block id -> value *)
  Definition state := list (nat * T).
  Fixpoint lookup (st : state) (b : nat) : option T :=
    match st with [] => None | (k, v) :: t => if Nat.eqb k b then Some v else lookup t b end.
  Fixpoint update (st : state) (b : nat) (v : T) : state :=
    match st with [] => [] | (k, w) :: t => if Nat.eqb k b then (k, v) :: t else (k, w) :: update t b v end.

  Variable blockc : nat -> option T.      (* _block_contexts[key] at the start of the pass *)

  Definition obind {A B} (o : option A) (g : A -> option B) : option B :=
    match o with Some a => g a | None => None end.

  (* _calculate_reachin *)
  Definition reachin (st : state) (b : block) : option T :=
    let init := if Nat.eqb (b_idx b) (fn_entry f) then univ else null in
    obind (prev_global f b) (fun ps =>
    obind (fold_left (fun acc p =>
             obind acc (fun a =>
             obind (lookup st p) (fun ro =>
             obind (fblock f p) (fun pb =>
             obind (edge_constraint pb (b_idx b)) (fun ec => Some (union a (inter ro ec)))))))
           ps (Some init)) (fun acc =>
    if is_sub_return_point f b then
      obind (callsub_block_of f b) (fun c => obind (lookup st c) (fun rc => Some (inter acc rc)))
    else Some acc)).

  Fixpoint append_new (wl : list nat) (xs : list nat) : list nat :=
    match xs with
    | [] => wl
    | x :: t => if nat_mem x wl then append_new wl t else append_new (wl ++ [x]) t
    end.

  Fixpoint forward (fuel : nat) (wl : list nat) (st : state) : outcome state :=
    match fuel with
    | O => OutOfFuel
    | S fu =>
        match wl with
        | [] => Done st
        | bid :: wl' =>
            match fblock f bid with
            | None => Exn "KeyError: block"
            | Some b =>
                match reachin st b, blockc bid, lookup st bid with
                | Some ri, Some bc, Some old =>
                    let new := inter ri bc in
                    if t_eqb new old then forward fu wl' st
                    else
                      match next_global f b with
                      | None => Exn "KeyError: next_blocks_global"
                      | Some nx =>
                          let rp := if f_is_callsub f b then match sub_return_point b with Some r => [r] | None => [] end else [] in
                          forward fu (append_new wl' (nx ++ rp)) (update st bid new)
                      end
                | _, _, _ => Exn "KeyError: forward"
                end
            end
        end
    end.

  (* _calculate_livein *)
  Definition livein (st : state) (b : block) : option T :=
    obind (next_global f b) (fun nx =>
    obind (fold_left (fun acc s => obind acc (fun a => obind (lookup st s) (fun lo => Some (union a lo)))) nx (Some null)) (fun acc =>
    match fexit_op f b, sub_return_point b with
    | Some (ICallsub l), Some rp =>
        obind (f_find_sub f l) (fun s =>
        match sub_retsub_blocks f s with
        | [] => Some acc
        | _ => obind (lookup st rp) (fun lr => Some (inter acc lr))
        end)
    | _, _ => Some acc
    end)).

  Fixpoint backward (fuel : nat) (wl : list nat) (st : state) : outcome state :=
    match fuel with
    | O => OutOfFuel
    | S fu =>
        match wl with
        | [] => Done st
        | bid :: wl' =>
            match fblock f bid with
            | None => Exn "KeyError: block"
            | Some b =>
                if leaf_global f b then backward fu wl' st else
                match livein st b, blockc bid, lookup st bid with
                | Some li, Some bc, Some old =>
                    let new := inter li bc in
                    if t_eqb new old then backward fu wl' st
                    else
                      match prev_global f b with
                      | None => Exn "KeyError: prev_blocks_global"
                      | Some ps =>
                          let cs := if is_sub_return_point f b then match callsub_block_of f b with Some c => [c] | None => [] end else [] in
                          backward fu (append_new wl' (ps ++ cs)) (update st bid new)
                      end
                | _, _, _ => Exn "KeyError: backward"
                end
            end
        end
    end.
End Domain.

(* ---------------------------------------------------------------- worklists: _postorder over local successors *)
Fixpoint postorder_dfs (fuel : nat) (f : func) (n : nat) (visited order : list nat) : list nat * list nat :=
  match fuel with
  | O => (visited, order)
  | S fu =>
      let visited1 := n :: visited in
      let succs := match fblock f n with Some b => b_next b | None => [] end in
      let '(v2, o2) := fold_left (fun '(v, o) s => if nat_mem s v then (v, o) else postorder_dfs fu f s v o) succs (visited1, order) in
      (v2, o2 ++ [n])
  end.
Definition postorder (f : func) (entry : nat) : list nat :=
  snd (postorder_dfs (S (length (fn_blocks f))) f entry [] []).

Definition postorders (f : func) : list (list nat) :=
  postorder f (fn_entry f) :: map (fun s => postorder f (s_entry s)) (fn_subs f).
Definition forward_worklist (f : func) : list nat := flat_map (fun l => rev l) (postorders f).
Definition backward_worklist (f : func) : list nat :=
  flat_map (fun l => filter (fun n => match fblock f n with Some b => negb (leaf_global f b) | None => true end) l) (postorders f).
