(* Extraction of the executable model. Only the standard directive files are used:
   ExtrOcamlBasic (bool, option, list, prod, unit, sumbool -> OCaml natives) and
   ExtrOcamlNativeString (string -> string, ascii -> char). No Extract Constant of our own. *)
From Coq Require Import Extraction ExtrOcamlBasic ExtrOcamlNativeString.
From Tealer Require Import Driver.
Extraction Blacklist String List Nat Char.
Separate Extraction Driver.handle_cfg Driver.handle_analyze Driver.handle_parseline Driver.handle_regex Driver.handle_ast Driver.handle_function Driver.handle_group Group.mkTxn.
