(* stdin protocol: requests separated by header lines
     @@REQ <kind> <id> <nlines> [arg]
   followed by <nlines> lines of text. Output: one line "<id>\t<json>" per request. *)
let n_of_int (i : int) : BinNums.coq_N = BinNat.N.of_nat (let rec go k = if k = 0 then Datatypes.O else Datatypes.S (go (k-1)) in go i)

let () =
  let rec loop () =
    match input_line stdin with
    | exception End_of_file -> ()
    | hdr ->
      (match String.split_on_char ' ' hdr with
       | "@@REQ" :: kind :: id :: n :: rest ->
         let n = int_of_string n in
         let buf = Buffer.create 1024 in
         for i = 1 to n do
           let l = input_line stdin in
           Buffer.add_string buf l;
           if i < n then Buffer.add_char buf '\n'
         done;
         let text = Buffer.contents buf in
         let out =
           try
             (match kind with
              | "cfg" -> Driver.handle_cfg text
              | "analyze" -> Driver.handle_analyze text
              | "ast" -> Driver.handle_ast text
              | "parseline" ->
                let v = match rest with v :: _ -> int_of_string v | [] -> 8 in
                Driver.handle_parseline (n_of_int v) text
              | "regex" ->
                (* text = pattern lines, a line "@@----", program lines; rest = [label] *)
                let label = match rest with l :: _ -> l | [] -> "*" in
                let sep = "\n@@----\n" in
                let idx = (let rec find i = if i + String.length sep > String.length text then -1 else if String.sub text i (String.length sep) = sep then i else find (i+1) in find 0) in
                if idx < 0 then "{\"err\":\"bad regex request\"}" else
                let pat = String.sub text 0 idx in
                let prog = String.sub text (idx + String.length sep) (String.length text - idx - String.length sep) in
                Driver.handle_regex label pat prog
              | _ -> "{\"err\":\"unknown request\"}")
           with Stack_overflow -> "{\"err\":\"driver stack overflow\"}"
              | e -> "{\"err\":\"driver exception " ^ String.escaped (Printexc.to_string e) ^ "\"}" in
         print_string id; print_char '\t'; print_string out; print_newline ()
       | _ -> ());
      loop ()
  in loop ()
