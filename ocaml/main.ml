(* stdin protocol: requests separated by header lines
     @@REQ <kind> <id> <nlines> [arg]
   followed by <nlines> lines of text. Output: one line "<id>\t<json>" per request. *)
let n_of_int (i : int) : BinNums.coq_N = BinNat.N.of_nat (let rec go k = if k = 0 then Datatypes.O else Datatypes.S (go (k-1)) in go i)

let rec nat_of_int k = if k <= 0 then Datatypes.O else Datatypes.S (nat_of_int (k-1))
let z_of_int (i : int) : BinNums.coq_Z =
  if i = 0 then BinNums.Z0
  else if i > 0 then BinInt.Z.of_nat (nat_of_int i)
  else BinInt.Z.opp (BinInt.Z.of_nat (nat_of_int (-i)))
let words s = List.filter (fun w -> w <> "") (String.split_on_char ' ' s)

(* group request text:
     C <nfuncs> <nlines>   then nlines program lines, then nfuncs lines "P i j k"
     T id type has_ls ls app abs rel      (ls/app: function index or -, abs: n or -, rel: off=id,off=id or -) *)
let parse_group (text : string) =
  let lines = Array.of_list (String.split_on_char '\n' text) in
  let n = Array.length lines in
  let contracts = ref [] and txns = ref [] in
  let i = ref 0 in
  while !i < n do
    let l = lines.(!i) in
    (match words l with
     | "C" :: nf :: nl :: _ ->
       let nf = int_of_string nf and nl = int_of_string nl in
       let src = String.concat "\n" (Array.to_list (Array.sub lines (!i + 1) nl)) in
       let paths = List.init nf (fun k ->
           match words lines.(!i + 1 + nl + k) with
           | "P" :: ids -> List.map (fun x -> nat_of_int (int_of_string x)) ids
           | _ -> []) in
       contracts := (src, paths) :: !contracts;
       i := !i + 1 + nl + nf
     | "T" :: id :: ty :: hl :: ls :: app :: abs :: rel :: _ ->
       let opt f x = if x = "-" then None else Some (f x) in
       let rels = if rel = "-" then [] else
           List.map (fun kv -> match String.split_on_char '=' kv with
               | [o; t] -> (z_of_int (int_of_string o), t) | _ -> (BinNums.Z0, "")) (String.split_on_char ',' rel) in
       txns := { Group.g_id = id; g_type = ty; g_has_logic_sig = (hl = "1");
                 g_logic_sig = opt (fun x -> nat_of_int (int_of_string x)) ls;
                 g_application = opt (fun x -> nat_of_int (int_of_string x)) app;
                 g_abs = opt (fun x -> n_of_int (int_of_string x)) abs; g_rel = rels } :: !txns;
       i := !i + 1
     | _ -> i := !i + 1)
  done;
  (List.rev !contracts, List.rev !txns)

let () =
  let rec loop () =
    match input_line stdin with
    | exception End_of_file -> ()
    | hdr ->
      (match String.split_on_char ' ' hdr with
       | "@@REQ" :: kind :: id :: n :: rest ->
         let n = int_of_string n in
         let buf = Buffer.create 1024 in
         for i = 1 to n do
           let l = input_line stdin in
           Buffer.add_string buf l;
           if i < n then Buffer.add_char buf '\n'
         done;
         let text = Buffer.contents buf in
         let out =
           try
             (match kind with
              | "cfg" -> Driver.handle_cfg text
              | "analyze" -> Driver.handle_analyze text
              | "ast" -> Driver.handle_ast text
              | "function" -> Driver.handle_function (List.map (fun x -> nat_of_int (int_of_string x)) rest) text
              | "group" -> let (cs, ts) = parse_group text in Driver.handle_group cs ts
              | "parseline" ->
                let v = match rest with v :: _ -> int_of_string v | [] -> 8 in
                Driver.handle_parseline (n_of_int v) text
              | "regex" ->
                (* text = pattern lines, a line "@@----", program lines; rest = [label] *)
                let label = match rest with l :: _ -> l | [] -> "*" in
                let sep = "\n@@----\n" in
                let idx = (let rec find i = if i + String.length sep > String.length text then -1 else if String.sub text i (String.length sep) = sep then i else find (i+1) in find 0) in
                if idx < 0 then "{\"err\":\"bad regex request\"}" else
                let pat = String.sub text 0 idx in
                let prog = String.sub text (idx + String.length sep) (String.length text - idx - String.length sep) in
                Driver.handle_regex label pat prog
              | _ -> "{\"err\":\"unknown request\"}")
           with Stack_overflow -> "{\"err\":\"driver stack overflow\"}"
              | e -> "{\"err\":\"driver exception " ^ String.escaped (Printexc.to_string e) ^ "\"}" in
         print_string id; print_char '\t'; print_string out; print_newline ()
       | _ -> ());
      loop ()
  in loop ()
